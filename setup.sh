#!/bin/sh
# Offline setup: nothing to build or fetch. Validates the reference models
# against the documentation and the literals copied from the suite, and
# byte-compiles mc/ to catch syntax errors early.
HERE="$(cd "$(dirname "$0")" && pwd)"
cd "$HERE" || exit 2
export PYTHONDONTWRITEBYTECODE=1 PYTHONHASHSEED=0
export PYTHONPATH="${VERIF_REPO:-/repo}/python:$HERE"
/venv/bin/python -m mc.selftest || exit 1
echo "setup ok"
