"""A small controlled scheduler for real Python threads (stateless model
checking of interleavings, CHESS style).

Each *body* runs in its own thread but only while it holds the baton; it
gives the baton back at every *scheduling point* (``ctl.point()``, called by
instrumented streams / dicts before each write / read / items()). Exactly
one thread runs at any time, so an execution is fully determined by the
sequence of choices made at the decision points; `explore` enumerates every
such sequence with at most `bound` preemptions (a preemption = switching
away from a thread that could have continued), running every execution to
completion.
"""
import threading


class Deadlock(Exception):
    pass


class _Ctl(object):
    def __init__(self, sched, tid):
        self.sched = sched
        self.tid = tid

    def point(self):
        """Scheduling point: hand the baton to the scheduler and wait."""
        s = self.sched
        if threading.current_thread() is not s.threads[self.tid]:
            return          # called from outside the managed threads
        s.control.release()
        s.sems[self.tid].acquire()


class Execution(object):
    """One run of `bodies` under a prefix of choices."""

    def __init__(self, bodies, prefix, trace_files=()):
        self.bodies = bodies
        self.prefix = list(prefix)
        # file name suffixes whose every executed LINE is a scheduling
        # point (sys.settrace in the managed threads)
        self.trace_files = tuple(trace_files)
        n = len(bodies)
        self.sems = [threading.Semaphore(0) for _ in range(n)]
        self.control = threading.Semaphore(0)
        self.done = [False] * n
        self.results = [None] * n
        self.errors = [None] * n
        self.threads = [None] * n
        # decisions: list of (enabled tuple in canonical order, chosen index,
        # running thread still enabled?)
        self.decisions = []
        self.trace = []

    def _wrap(self, tid):
        def run():
            self.sems[tid].acquire()
            ctl = _Ctl(self, tid)
            if self.trace_files:
                import sys

                def local(frame, event, arg):
                    if event == 'line':
                        ctl.point()
                    return local

                def tracer(frame, event, arg):
                    if frame.f_code.co_filename.endswith(self.trace_files):
                        return local
                    return None
                sys.settrace(tracer)
            try:
                self.results[tid] = self.bodies[tid](ctl)
            except BaseException as e:      # reported by the oracle
                self.errors[tid] = e
            finally:
                if self.trace_files:
                    import sys
                    sys.settrace(None)
            self.done[tid] = True
            self.control.release()
        return run

    def run(self, timeout=20.0):
        n = len(self.bodies)
        for t in range(n):
            th = threading.Thread(target=self._wrap(t))
            th.daemon = True
            self.threads[t] = th
            th.start()
        current = None
        while not all(self.done):
            alive = [t for t in range(n) if not self.done[t]]
            # canonical order: the running thread first, then ascending ids
            if current is not None and not self.done[current]:
                enabled = [current] + [t for t in alive if t != current]
                still = True
            else:
                enabled = alive
                still = False
            i = len(self.decisions)
            if i < len(self.prefix):
                c = self.prefix[i]
                if c >= len(enabled):
                    raise RuntimeError('schedule diverged at decision %d: '
                                       'choice %d of %r' % (i, c, enabled))
            else:
                c = 0
            self.decisions.append((tuple(enabled), c, still))
            current = enabled[c]
            self.trace.append(current)
            self.sems[current].release()
            if not self.control.acquire(timeout=timeout):
                raise Deadlock('thread %d neither reached a scheduling '
                               'point nor finished within %.0f s'
                               % (current, timeout))
        for th in self.threads:
            th.join(timeout)
        return self

    def preemptions_before(self, i):
        return sum(1 for (en, c, still) in self.decisions[:i]
                   if still and c != 0)


def explore(make_bodies, check, bound=2, max_executions=None,
            trace_files=()):
    """make_bodies() -> (bodies, context) builds FRESH objects for one
    execution; check(execution, context) -> list of violations. Returns
    (executions, distinct traces, violations[(trace, choices, v)])."""
    stats = {'executions': 0, 'traces': set(), 'capped': False}
    out = []

    def one(prefix):
        if max_executions is not None and \
                stats['executions'] >= max_executions:
            stats['capped'] = True
            return
        bodies, ctx = make_bodies()
        x = Execution(bodies, prefix, trace_files).run()
        stats['executions'] += 1
        stats['traces'].add(tuple(x.trace))
        choices = [c for (en, c, still) in x.decisions]
        for v in check(x, ctx):
            out.append((tuple(x.trace), choices, v))
        for i in range(len(prefix), len(x.decisions)):
            en, c, still = x.decisions[i]
            base = x.preemptions_before(i)
            for alt in range(1, len(en)):
                cost = base + (1 if still else 0)
                if cost > bound:
                    continue
                one(choices[:i] + [alt])
    one([])
    return stats['executions'], len(stats['traces']), out, stats['capped']
