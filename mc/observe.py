"""Run the real writer / reader / DOM under instrumented streams and take
frozen snapshots of everything they can remember."""
import io
import os
import sys
import traceback

import pydiffx
from pydiffx import DiffXReader, DiffXWriter
from pydiffx.errors import DiffXParseError, BaseDiffXError

from mc.explore import freeze


class ForbiddenStreamOp(Exception):
    pass


class AppendOnlyStream(object):
    """Write-only, append-only sink. Anything else raises."""

    def __init__(self):
        self.buf = bytearray()
        self.nwrites = 0
        self.closed = False

    def write(self, b):
        if not isinstance(b, (bytes, bytearray)):
            raise TypeError('write() of %r' % type(b))
        self.buf += b
        self.nwrites += 1
        return len(b)

    def getvalue(self):
        return bytes(self.buf)

    def flush(self):
        pass

    def _no(self, *a, **k):
        raise ForbiddenStreamOp('writer used a non-append stream operation')

    read = seek = truncate = readline = readlines = _no

    def tell(self):
        return len(self.buf)


def new_writer(main_encoding='utf-8', stream=None):
    s = stream if stream is not None else AppendOnlyStream()
    return DiffXWriter(s, encoding=fresh(main_encoding)), s


def fresh(x):
    """A new, non-interned object equal to x (str / bytes / containers).
    Literals in this harness are interned and therefore IDENTICAL to the
    library's own constants ('dos' is LineEndings.DOS); values that reach
    the library in real use (parsed from a header, read from a config) are
    not. Passing fresh copies makes identity-based comparisons in the
    library visible and makes runs and replays (which rebuild values from
    JSON) behave alike."""
    if isinstance(x, str) and type(x) is str:
        return ''.join(list(x)) if len(x) > 1 else x
    if isinstance(x, bytes) and type(x) is bytes:
        return bytes(bytearray(x)) if len(x) > 1 else x
    if type(x) is list:
        return [fresh(i) for i in x]
    if type(x) is tuple:
        return tuple(fresh(i) for i in x)
    if type(x) is dict:
        return {fresh(k): fresh(v) for k, v in x.items()}
    return x


def apply_call(w, c):
    c = fresh(c) if c and c[0] != 'raw' else c
    k = c[0]
    if k == 'change':
        return w.new_change(encoding=c[1])
    if k == 'file':
        return w.new_file(encoding=c[1])
    if k == 'preamble':
        return w.write_preamble(c[1], encoding=c[2], indent=c[3],
                                line_endings=c[4], mimetype=c[5])
    if k == 'meta':
        return w.write_meta(c[1], encoding=c[2])
    if k == 'diff':
        return w.write_diff(c[1], diff_type=c[2], encoding=c[3],
                            line_endings=c[4])
    if k == 'raw':          # ('raw', method, args, kwargs) -- hostile variants
        return getattr(w, c[1])(*c[2], **c[3])
    raise ValueError(k)


def run_writer(calls, main_encoding='utf-8'):
    """Returns (writer, stream, offsets) where offsets[i] is the stream size
    after call i (offsets[0] = after the constructor). Exceptions
    propagate."""
    w, s = new_writer(main_encoding)
    offs = [len(s.buf)]
    for c in calls:
        apply_call(w, c)
        offs.append(len(s.buf))
    return w, s, offs


def run_writer_reusing(calls, main_encoding='utf-8'):
    """Same calls, but the caller re-uses its argument OBJECTS: one dict
    object carries every metadata (cleared and refilled between calls), and
    equal texts / byte strings / option values are the very same object
    each time. Returns the stream bytes."""
    w, s = new_writer(main_encoding)
    shared = {}
    pool = {}

    def same(x):
        if isinstance(x, (str, bytes)):
            return pool.setdefault((type(x), x), x)
        return x
    for c in calls:
        c = fresh(c) if c and c[0] != 'raw' else c
        if c[0] == 'meta' and type(c[1]) is dict:
            shared.clear()
            shared.update(c[1])
            c = [c[0], shared] + [same(a) for a in c[2:]]
        else:
            c = [c[0]] + [same(a) for a in c[1:]]
        k = c[0]
        if k == 'change':
            w.new_change(encoding=c[1])
        elif k == 'file':
            w.new_file(encoding=c[1])
        elif k == 'preamble':
            w.write_preamble(c[1], encoding=c[2], indent=c[3],
                             line_endings=c[4], mimetype=c[5])
        elif k == 'meta':
            w.write_meta(c[1], encoding=c[2])
        elif k == 'diff':
            w.write_diff(c[1], diff_type=c[2], encoding=c[3],
                         line_endings=c[4])
        else:
            raise ValueError(k)
    return s.getvalue()


def freeze_writer(w):
    d = {k: v for k, v in vars(w).items() if k != 'fp'}
    return freeze(d)


READER_TEMPS = {'self', 'section', 'level', 'linenum', 'options',
                'section_id', 'encoding', 'length', 'metadata_format',
                'content', 'diffx_version', 'e'}


def freeze_reader(r, gen):
    d = {k: v for k, v in vars(r).items() if k not in ('_fp', '_linenum')}
    loc = {}
    frame = getattr(gen, 'gi_frame', None)
    if frame is not None:
        loc = {k: v for k, v in frame.f_locals.items()
               if k not in READER_TEMPS}
    elif gen is not None and hasattr(gen, '__dict__'):
        # an iterator object instead of a generator: its attributes are
        # the control state
        loc = {k: v for k, v in vars(gen).items()
               if k not in ('_fp', 'fp', '_reader', 'reader')}
    return freeze({'vars': d, 'locals': loc})


def site_of(exc):
    """Stable site key: innermost pydiffx frame (file:function:source text)."""
    tb = traceback.extract_tb(exc.__traceback__)
    for fr in reversed(tb):
        if '/pydiffx/' in fr.filename:
            return '%s:%s:%s' % (os.path.basename(fr.filename), fr.name,
                                 (fr.line or '').strip()[:60])
    if tb:
        return '%s:%s' % (os.path.basename(tb[-1].filename), tb[-1].name)
    return '?'


def read_all(data, reader_cls=DiffXReader, stream=None, limit=None):
    """Returns (records, exc, reader, gen). exc is None on normal end.
    With limit=n stops after n records leaving the generator suspended."""
    s = stream if stream is not None else io.BytesIO(data)
    r = reader_cls(s)
    gen = r.iter_sections()
    recs = []
    exc = None
    try:
        if limit is None:
            for rec in gen:
                recs.append(rec)
        else:
            for _ in range(limit):
                recs.append(next(gen))
    except StopIteration:
        pass
    except BaseException as e:       # classified by the caller
        if isinstance(e, (KeyboardInterrupt, SystemExit)):
            raise
        exc = e
    return recs, exc, r, gen


def read_all_hostile(data, reader_cls=DiffXReader):
    """Like read_all, but the consumer edits every record in place after
    taking a deep copy of it: what was yielded belongs to the consumer and
    must not influence how the rest of the file is read."""
    import copy
    s = io.BytesIO(data)
    r = reader_cls(s)
    recs = []
    exc = None
    try:
        for rec in r.iter_sections():
            recs.append(copy.deepcopy(rec))
            opts = rec.get('options')
            if isinstance(opts, dict):
                opts.clear()
                opts['encoding'] = 'utf-32'
                opts['length'] = 1
                opts['indent'] = 3
                opts['line_endings'] = 'dos'
            if isinstance(rec.get('metadata'), dict):
                rec['metadata'].clear()
            rec.clear()
            rec['section'] = 'x'
            rec['level'] = 7
    except BaseException as e:
        if isinstance(e, (KeyboardInterrupt, SystemExit)):
            raise
        exc = e
    return recs, exc


def rec_content(rec):
    for k in ('text', 'metadata', 'diff'):
        if k in rec:
            return k, rec[k]
    return None, None


def rec_core(rec, with_line=True):
    """Comparable projection of a reader record."""
    d = {k: rec.get(k) for k in ('level', 'options', 'section', 'type')}
    if with_line:
        d['line'] = rec.get('line')
    k, v = rec_content(rec)
    if k:
        d[k] = v
    extra = set(rec) - {'level', 'options', 'section', 'type', 'line',
                        'text', 'metadata', 'diff'}
    if extra:
        d['_extra_keys'] = sorted(extra)
    return d


def typed_eq(a, b):
    """Equality that also requires equal types (1 != True != 1.0, str !=
    bytes) recursively."""
    return freeze(a) == freeze(b)


def module_globals_snapshot():
    """Frozen snapshot of the library's module-/class-level tables and
    defaults. Names are looked up tolerantly (a refactoring may rename or
    drop a private table) and every container found as a class attribute
    of an object-model class is included."""
    from pydiffx import sections, options
    from pydiffx.utils import text
    from pydiffx.dom import objects, writer as domw, reader as domr
    snap = {}
    for mod, names in ((text, ('BOMS', 'NEWLINE_FORMATS')),
                       (sections, ('VALID_SECTION_STATES', 'CONTENT_SECTIONS',
                                   'META_SECTIONS', 'PREAMBLE_SECTIONS'))):
        for n in names:
            v = getattr(mod, n, None)
            if isinstance(v, (dict, list, set, frozenset, tuple)):
                snap['%s.%s' % (mod.__name__, n)] = v
    for cname in ('DiffType', 'LineEndings', 'MetaFormat',
                  'PreambleMimeType', 'SpecVersion'):
        c = getattr(options, cname, None)
        v = getattr(c, 'VALID_VALUES', None)
        if isinstance(v, (dict, list, set, frozenset, tuple)):
            snap['opt.' + cname] = v
    for mod in (objects, domw, domr):
        for cname in sorted(vars(mod)):
            c = getattr(mod, cname)
            if not isinstance(c, type) or \
                    getattr(c, '__module__', '') != mod.__name__:
                continue
            for an, av in sorted(vars(c).items()):
                if an.startswith('__'):
                    continue
                if isinstance(av, (dict, list, set)) and \
                        'cache' not in an.lower():
                    snap['cls.%s.%s' % (cname, an)] = av
    return freeze(snap)
