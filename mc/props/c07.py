"""C07 -- length frames content: truncated / damaged files never yield
altered sections."""
import glob
import os
import re

from pydiffx.errors import DiffXParseError

from mc import spec
from mc.explore import Acc
from mc.observe import read_all, rec_core, typed_eq, site_of
from mc.props.c17 import base_files, _sections
from mc.props.c12 import header_spans
from mc.spec import to_jsonable, from_jsonable

ID = 'C07'
LEVEL = 'model_checking'


def extra_files():
    M = ['meta', {'path': 'f'}, None]
    out = []
    b, _ = spec.serialize([
        ['preamble', '#.change:\n#diffx: version=1.0\n', None, 0, None,
         None],
        ['change', None],
        ['preamble', 'x\n#..file:\n#...diff: length=2\n', None, 4, None,
         None],
        ['file', None], M,
        ['diff', b'#..file:\n#...meta: length=3\n{}\n#.change:\n', None,
         None, None],
        ['file', None], M, ['diff', b'a\r\nb\r\nc\r\n', None, None, 'dos'],
    ], 'utf-8')
    out.append(('lookalikes', b))
    b, _ = spec.serialize([
        ['preamble', 'one\r\ntwo\r\nthree\r\n', None, 2, None, None],
        ['change', 'utf-16-le'],
        ['preamble', 'a\nb\n', None, 0, None, None],
        ['meta', {'k': 'v'}, None],
        ['file', None], M,
        ['diff', 'x\r\ny\r\n'.encode('utf-32'), None, 'utf-32', None],
    ], 'utf-8')
    out.append(('dos-and-wide', b))
    b, _ = spec.serialize([
        ['change', None], ['file', None], M,
        ['diff', b'a\n', None, None, None]], 'utf-8')
    out.append(('tiny', b))
    b, _ = spec.serialize([
        ['change', None], ['file', None], M,
        ['diff', b'line1\nline2\nline3\n', 'text', None, 'unix']], 'utf-8')
    out.append(('diff-last', b))
    b, _ = spec.serialize([
        ['preamble', 'only a preamble\nsecond line\n', None, 4, None,
         None]], 'utf-8')
    out.append(('preamble-last', b))
    # foreign producer: content headers carry the minimum (length, and the
    # type of a binary diff), as in the specification's own examples
    bin_ = b'delta 14\nzcmZ?wbhEHbabc\nxyz\x00\xff\r\nmore\n\nlast line\n'
    txt = b'first line\nsecond line\nthird\n'
    js = b'{"path": "f"}\n'
    # stateful codecs (shift sequences): a decoder silently drops a complete
    # shift sequence at the end of its input, so only the raw bytes show
    # that a line is incomplete
    for codec in ('iso2022_jp', 'utf-7', 'iso2022_kr', 'hz'):
        try:
            t1 = 'Fix the parser\n\u65e5\u672c\u8a9e\u306e\u8aac\u660e\n' \
                 'plain\n\u8a9e tail\n'
            if codec in ('iso2022_kr',):
                t1 = 'Fix\n\ud55c\uad6d\uc5b4 text\nplain\n\ud55c\n'
            if codec == 'hz':
                t1 = 'Fix\n\u4e2d\u6587 text\nplain\n\u4e2d\n'
            b1 = t1.encode(codec)
            if b1.decode(codec) != t1 or not b1.endswith(b'\n'):
                continue
        except Exception:
            continue
        js = b'{"path": "f"}\n'
        out.append(('stateful-%s' % codec,
                    b'#diffx: encoding=utf-8, version=1.0\n'
                    b'#.preamble: encoding=%s, length=%d\n%s'
                    b'#.change: encoding=%s\n'
                    b'#..preamble: length=%d\n%s'
                    b'#..file:\n#...meta: encoding=utf-8, length=%d\n%s'
                    b'#...diff: encoding=%s, length=%d\n%s'
                    % (codec.encode(), len(b1), b1, codec.encode(), len(b1),
                       b1, len(js), js, codec.encode(), len(b1), b1)))
    # DECLARED line endings with lines that end in the other kind inside
    # (git writes its own ---/+++/@@ lines with LF into a CRLF diff): in a
    # dos section an LF-terminated line is not a line boundary
    dm = b'--- a\n+++ b\n@@ -1 +1 @@\n-x\r\n+y\r\n'
    um = b'one\r\ntwo\r\nthree\n'
    pm = b'  first\n  second\r\n'
    js = b'{"path": "f"}\n'
    out.append(('declared-mixed',
                b'#diffx: encoding=utf-8, version=1.0\n'
                b'#.preamble: indent=2, length=%d, line_endings=dos\n%s'
                b'#.change:\n#..file:\n#...meta: format=json, length=%d\n%s'
                b'#...diff: length=%d, line_endings=dos\n%s'
                b'#..file:\n#...meta: format=json, length=%d\n%s'
                b'#...diff: length=%d, line_endings=unix\n%s'
                b'#..file:\n#...meta: format=json, length=%d\n%s'
                % (len(pm), pm, len(js), js, len(dm), dm, len(js), js,
                   len(um), um, len(js), js)))
    # format-string metacharacters in content (an error message that
    # quotes the damaged line must not interpret it)
    fm = (b'--- a/x.c\n+++ b/x.c\n@@ -1,2 +1,3 @@\n'
          b'-printf("%d%% done %s\\n", n, s);\n'
          b'+printf("%(count)d {0} {name} ${x} %", n);\n'
          b'+similarity index 100%\n %\n')
    fp_ = b'100% {} %s %(a)s %% \\x00 {0!r} $HOME\nsecond % line %\n'
    js = b'{"path": "100%/%s/{x}"}\n'
    out.append(('format-chars',
                b'#diffx: encoding=utf-8, version=1.0\n'
                b'#.preamble: indent=2, length=%d\n%s'
                b'#.change:\n#..preamble: length=%d\n%s'
                b'#..file:\n#...meta: format=json, length=%d\n%s'
                b'#...diff: length=%d\n%s'
                % (len(fp_.replace(b'\n', b'\n  ')) , b'  ' +
                   fp_.replace(b'\n', b'\n  ')[:-2], len(fp_), fp_,
                   len(js), js, len(fm), fm)))
    out.append(('foreign-minimal',
                b'#diffx: version=1.0\n'
                b'#.preamble: length=%d\n%s'
                b'#.change:\n#..file:\n#...meta: length=%d\n%s'
                b'#...diff: length=%d, type=binary\n%s'
                b'#..file:\n#...meta: length=%d\n%s'
                b'#...diff: length=%d, type=text\n%s'
                b'#..file:\n#...meta: format=json, length=%d\n%s'
                b'#...diff: length=%d\n%s'
                % (len(txt), txt, len(js), js, len(bin_), bin_, len(js), js,
                   len(txt), txt, len(js), js, len(bin_), bin_)))
    return out


def scale_files(tier):
    from mc.alphabets import sized_text
    M = ['meta', {'path': 'f'}, None]
    out = []
    b, _ = spec.serialize([
        ['preamble', sized_text(1025, 'lines'), None, 4, None, None],
        ['change', None], ['file', None], M,
        ['diff', sized_text(8193, 'lines').encode(), None, None, None],
        ['file', None], M,
        ['diff', sized_text(4097, 'one').encode(), None, None, None],
        ['file', None], M], 'utf-8')
    out.append(('scale-8k', b))
    b, _ = spec.serialize([
        ['change', None], ['file', None], M,
        ['diff', sized_text(65537 + 700, 'lines').encode(), None, None,
         None],
        ['file', None], M], 'utf-8')
    out.append(('scale-64k', b))
    # adjacent content sections of EQUAL declared length (>= 1 KiB) and
    # different contents: what was read for one section must never show up
    # in the next when that one is cut short
    p1 = (b'a' * 59 + b'\n') * 20
    p2 = (b'b' * 29 + b'\n') * 40
    d1 = (b'+' + b'x' * 48 + b'\n') * 30
    d2 = (b'-' + b'y' * 23 + b'\n') * 60
    js1 = b'{"path": "f", "pad": "' + b'p' * (1500 - 25) + b'"}\n'
    js2 = b'{"path": "g", "pad": "' + b'q' * (1500 - 25) + b'"}\n'
    assert len(p1) == len(p2) == 1200 and \
        len(d1) == len(d2) == len(js1) == len(js2) == 1500
    out.append(('equal-lengths',
                b'#diffx: encoding=utf-8, version=1.0\n'
                b'#.preamble: length=1200\n' + p1 +
                b'#.change:\n#..preamble: length=1200\n' + p2 +
                b'#..file:\n#...meta: format=json, length=1500\n' + js1 +
                b'#...diff: length=1500\n' + d1 +
                b'#..file:\n#...meta: format=json, length=1500\n' + js2 +
                b'#...diff: length=1500\n' + d2))
    return out


def huge_file():
    from mc.alphabets import sized_text
    M = ['meta', {'path': 'f'}, None]
    b, _ = spec.serialize([
        ['change', None], ['file', None], M,
        ['diff', sized_text(2300000, 'lines').encode(), None, None, None],
        ['file', None], M,
        ['diff', b'tail\n', None, None, None]], 'utf-8')
    return ('scale-2m', b)


def huge_multi_file():
    """Several sections over 1 MiB in ONE file (equal lengths, then a
    shorter one, then a preamble-bearing change): what one section leaves
    behind must not leak into a later, damaged one."""
    from mc.alphabets import sized_text
    M = ['meta', {'path': 'f'}, None]
    b, _ = spec.serialize([
        ['preamble', sized_text(1100000, 'lines', '\n', 'P'), None, 2, None,
         None],
        ['change', None], ['file', None], M,
        ['diff', sized_text(1200000, 'lines', '\n', 'A').encode(), None,
         None, None],
        ['file', None], M,
        ['diff', sized_text(1200000, 'lines', '\n', 'B').encode(), None,
         None, None],
        ['file', None], M,
        ['diff', sized_text(1100007, 'lines', '\n', 'C').encode(), None,
         None, None],
        ['change', None],
        ['preamble', sized_text(1150000, 'lines', '\n', 'Q'), None, 0, None,
         None],
        ['file', None], M], 'utf-8')
    return ('scale-multi', b)


def huge_files():
    return [huge_file(), huge_multi_file()]


def multi_cuts(data, lay):
    """Quick-tier cut points for the multi-section file: +-6 bytes around
    every section boundary, and a few offsets inside each big section."""
    pts = set()
    for hs, cs, ce, sid, nlb in lay:
        for c in (hs, cs, ce):
            pts |= set(range(max(0, c - 6), min(len(data), c + 7)))
        if ce - cs > 100000:
            for off in (70, 1000, 4099, 65536 + 17, 262144 + 3, 1048576 + 5,
                        (ce - cs) // 2 + 11, ce - cs - 4099):
                pts |= set(range(cs + off - 1, cs + off + 2))
    return sorted(p for p in pts if 0 <= p <= len(data))


def cuts_for(hfi, data, lay, tier):
    if hfi == 1 and tier == 'quick':
        return multi_cuts(data, lay)
    return huge_cuts(data, lay)


def huge_cuts(data, lay):
    """Cut points for the 2.3 MB file: every offset within +-48 bytes of
    each section boundary and of each power-of-two / buffer-size offset
    inside the big section, the last 400 bytes, and a regular stride."""
    pts = set(range(0, 200)) | set(range(len(data) - 400, len(data) + 1))
    for hs, cs, ce, sid, nlb in lay:
        for c in (hs, cs, ce):
            pts |= set(range(max(0, c - 48), min(len(data), c + 49)))
        if ce - cs > 100000:
            for off in (1024, 4096, 8192, 65536, 131072, 262144, 250000,
                        300000, 400000, 500000, 524288, 640000, 1000000,
                        1048576, 2000000, 2097152):
                c = cs + off
                if c < ce:
                    pts |= set(range(c - 48, c + 49))
    pts |= set(range(0, len(data), 9973))
    return sorted(p for p in pts if 0 <= p <= len(data))


def files(tier):
    out = [(n, d) for n, d in base_files() if n != 'long-headers']
    out += extra_files()
    out += scale_files(tier)
    ex = sorted(glob.glob(os.path.join(spec.REPO, 'docs', 'spec',
                                       'example-diffs', '*.diff')))
    for p in ex if tier == 'thorough' else ex[:2]:
        out.append(('example:' + os.path.basename(p), open(p, 'rb').read()))
    return out


def layout(data):
    """[(header start, content start, content end, section id, newline
    bytes)] using the reference reading of the intact file."""
    out = []
    recs, err = spec.parse(data)
    assert err is None, err
    spans = header_spans(data)
    for (pos, eol, plen, optlist), rec in zip(spans, recs):
        j = data.index(b'\n', eol)
        n = rec['options'].get('length', 0) \
            if rec['section'] in spec.CONTENT_IDS else 0
        nlb = None
        if n:
            own = rec['options'].get('encoding')
            body = data[j + 1:j + 1 + n]
            le = rec['options'].get('line_endings')
            # effective codec of this section for the newline bytes
            eff = _eff[rec['section']](recs, rec)
            k = le or spec.detect_kind_bytes(body, eff,
                                             spec._bom_len(body, eff))
            nlb = spec.nl(k, eff)
        out.append((pos, j + 1, j + 1 + n, rec['section'], nlb))
    return out


def _inherit(recs, rec):
    own = rec['options'].get('encoding')
    if own:
        return own
    scope = [None, None, None]
    depth = 0
    for r in recs:
        if r is rec:
            break
        if r['section'] in spec.CONTAINER_IDS:
            lvl = r['level']
            for i in range(lvl, 3):
                scope[i] = None
            scope[lvl] = r['options'].get('encoding')
            depth = lvl
    return spec.inherited_encoding(scope, depth)


_eff = {
    '.preamble': _inherit, '..preamble': _inherit, '.meta': _inherit,
    '..meta': _inherit, '...meta': _inherit,
    '...diff': lambda recs, rec: rec['options'].get('encoding'),
}


def cut_class(lay, cut):
    for hs, cs, ce, sid, nlb in lay:
        if hs < cut < cs:
            return 'inside-header', sid
        if cs <= cut < ce:
            if cut == cs:
                return 'at-content-start', sid
            return 'inside-content', sid
    return 'between-sections', None


def at_line_boundary(data, lay, cut):
    for hs, cs, ce, sid, nlb in lay:
        if cs < cut < ce and nlb:
            return data[cs:cut].endswith(nlb)
    return False


def in_indentation(data, lay, cut, recs):
    """The cut falls after a complete line, inside the ASCII-space
    indentation of the next preamble line."""
    for (hs, cs, ce, sid, nlb), rec in zip(lay, recs):
        if cs < cut < ce and nlb and sid.endswith('preamble'):
            indent = rec['options'].get('indent', 0)
            body = data[cs:cut]
            i = body.rfind(nlb)
            tail = body[i + len(nlb):] if i >= 0 else None
            return (tail is not None and 0 < len(tail) <= indent and
                    tail == b' ' * len(tail))
    return False


def check_cut(name, data, ref, lay, cut):
    recs, exc, _, _ = read_all(data[:cut])
    v = []
    cls, sid = cut_class(lay, cut)
    kind = (sid or '').lstrip('.') or 'none'
    if exc is not None and not isinstance(exc, DiffXParseError):
        v.append(('trunc:other-exception:%s:%s' % (type(exc).__name__,
                                                   site_of(exc)),
                  '%s cut at %d (%s): %r' % (name, cut, cls, exc)))
    got = [rec_core(r) for r in recs]
    if len(got) > len(ref):
        v.append(('trunc:extra-record:%s' % cls, '%s cut at %d' % (name, cut)))
        return v
    for i, g in enumerate(got):
        if not typed_eq(g, ref[i]):
            lb = 'at-content-line-boundary' if at_line_boundary(
                data, lay, cut) else (
                'inside-indentation' if in_indentation(data, lay, cut, ref)
                else 'inside-content-line')
            if cls != 'inside-content':
                lb = cls
            v.append(('trunc:altered-record:%s:%s' % (kind, lb),
                      '%s cut at byte %d of %d (%s of %s): record %d differs '
                      'from the intact file\n got      %r\n intact   %r'
                      % (name, cut, len(data), cls, sid, i, _s(g),
                         _s(ref[i]))))
            break
    return v


def _s(x):
    r = repr(x)
    return r if len(r) < 400 else r[:400] + '...'


PERTURB = ['+1', '+2', '+3', '+4', '+5', '+6', '+7', '+8', '-1', '-2', '-3',
           '-4', '-5', '-6', '-7', '-8', '=0', '=-1', '=-5', '=abc', '=1.5',
           '=1_0', '=0x10', '=007', '=99999999999999999999', '=+5', '= 5',
           '=', 'drop', '-9', '-40', '-41', '-100', '-1000', '+40', '+1000',
           '=1024', '=4096', '=8192', '=65536', '=65537', '=1048576',
           '=4294967296']


def perturb(data, span, rec, p):
    """Rewrite the length option of one header."""
    pos, eol, plen, optlist = span
    L = rec['options']['length']
    new = []
    for o in optlist:
        if o.startswith(b'length='):
            if p == 'drop':
                continue
            if p[0] in '+-':
                val = str(L + int(p))
            else:
                val = p[1:]
            new.append(b'length=' + val.encode('ascii'))
        else:
            new.append(o)
    hdr = data[pos:pos + plen] + ((b' ' + b', '.join(new)) if new else b'')
    return data[:pos] + hdr + data[eol:]


def check_perturb(name, data, ref, lay, hi, p):
    spans = header_spans(data)
    recs0, _ = spec.parse(data)
    d2 = perturb(data, spans[hi], recs0[hi], p)
    pref, perr = spec.parse(d2)
    recs, exc, _, _ = read_all(d2)
    v = []
    sid = recs0[hi]['section']
    kind = sid.lstrip('.')
    L0 = recs0[hi]['options']['length']
    if p[0] == '+':
        tag = 'larger'
    elif p[0] == '-':
        tag = 'smaller'
    elif p != 'drop' and re.fullmatch(r'=[0-9]+', p) and len(p) < 19:
        tag = 'larger' if int(p[1:]) > L0 else (
            'smaller' if int(p[1:]) < L0 else 'same')
    else:
        tag = p
    if exc is not None and not isinstance(exc, DiffXParseError):
        v.append(('perturb:other-exception:%s:%s' % (type(exc).__name__,
                                                     site_of(exc)),
                  '%s header %d length%s: %r' % (name, hi, p, exc)))
    got = [rec_core(r) for r in recs]
    # records before the perturbed section equal the intact ones
    for i in range(min(hi, len(got))):
        if not typed_eq(got[i], ref[i]):
            v.append(('perturb:earlier-record-changed', '%s header %d '
                      'length%s: record %d' % (name, hi, p, i)))
            return v
    if len(got) <= hi:
        return v                      # rejected before / at the section: fine
    g = got[hi]
    ref_rejects = len(pref) <= hi
    if ref_rejects:
        # strict reading rejects this section (length not a non-negative
        # integer, more bytes declared than present, or the framed bytes do
        # not end in the newline): it must not be yielded with content that
        # differs from the intact file
        why = perr.why if perr is not None else '?'
        # C07 is about framing: only "length is not a non-negative integer"
        # and "more bytes declared than present" are decided here; framed
        # bytes that are themselves malformed (no final newline, bad JSON,
        # undecodable) are C03/C08 territory.
        if why in ('length', 'short') and not _same_content(g, ref[hi]):
            lb = ''
            if why == 'short':
                hs, cs, ce, s_, nlb = lay[hi]
                lb = ':data-ends-at-line-boundary' if (
                    nlb and data[cs:].endswith(nlb)) else \
                    ':data-ends-inside-line'
            v.append(('perturb:yielded-altered:%s:%s:%s%s'
                      % (kind, tag, why, lb),
                      '%s header %d (%s) length%s: strict reading rejects '
                      '(%s) but the reader yielded %s' % (
                          name, hi, sid, p, why, _s(g))))
    else:
        want = rec_core(pref[hi])
        if not _same_content(g, want):
            v.append(('perturb:content-differs-from-strict-reading:%s:%s'
                      % (kind, tag),
                      '%s header %d (%s) length%s:\n got    %s\n strict %s'
                      % (name, hi, sid, p, _s(g), _s(want))))
    return v


def _same_content(a, b):
    for k in ('text', 'metadata', 'diff'):
        if k in a or k in b:
            return typed_eq(a.get(k), b.get(k))
    return True


def plan(tier):
    fs = files(tier)
    units = []
    for fi, (name, data) in enumerate(fs):
        step = 400
        for lo in range(0, len(data) + 1, step):
            units.append(('cut', fi, lo, min(lo + step, len(data) + 1)))
        units.append(('perturb', fi))
    for hfi, (hname, hdata) in enumerate(huge_files()):
        hlay = layout(hdata)
        hc = cuts_for(hfi, hdata, hlay, tier)
        for i in range(0, len(hc), 40):
            units.append(('huge-cut', i, i + 40, hfi))
        for hi in range(len(hlay)):
            if hlay[hi][3] in spec.CONTENT_IDS:
                units.append(('huge-perturb', hi, hfi))
    return {
        'units': units,
        'rule': '%d well-formed files (every section kind, indent, CRLF '
                'content, UTF-16/32 content, contents embedding complete '
                'look-alike headers, last section of each kind, spec '
                'examples) x EVERY truncation point 0..len(file) (%d cuts) '
                'and x every content header x %d length perturbations '
                '(+-1..8, 0, negative, abc, 1.5, 1_0, 0x10, 007, 20 digits, '
                'missing); plus a 5.9 MB file with five sections over 1 MiB '
                '(equal and unequal lengths) cut around every boundary and '
                'inside every big section, and a 2.3 MB file cut at every offset within +-48 '
                'bytes of each section boundary and of each power-of-two / '
                'buffer-size offset inside its big section, its first 200 '
                'and last 400 bytes and every 9973rd byte. Oracle: truncation -> records are a prefix (full '
                'record equality) of the intact file\'s records then normal '
                'end or DiffXParseError; perturbation -> compared with the '
                'strict reference reading of the perturbed bytes. '
                'Non-trivial: cut strictly inside a content section / '
                'perturbation that changes which bytes are content.'
                % (len(fs), sum(len(d) + 1 for n, d in fs), len(PERTURB)),
        'bound': 'all cut points; single perturbations',
        'exhaustive': True,
        'assumptions': ['the stream delivers what is there (a short read '
                        'means end of data)'],
    }



def OPT_UNITS(tier):
    """Units repeated in an interpreter started with -O (validation must
    not live in assert statements or __debug__ blocks)."""
    us = plan(tier)['units']
    keep = []
    for kind, n in [('perturb', 17), ('cut', 20)]:
        keep += [u for u in us if str(u[0]) == kind][:n]
    return keep


def run_unit(unit, tier):
    acc = Acc()
    if unit[0] in ('huge-cut', 'huge-perturb'):
        name, data = huge_files()[unit[-1]]
        ref_recs, exc, _, _ = read_all(data)
        ref = [rec_core(r) for r in ref_recs]
        lay = layout(data)
        if unit[0] == 'huge-cut':
            for cut in cuts_for(unit[-1], data, lay, tier)[unit[1]:unit[2]]:
                viols = check_cut(name, data, ref, lay, cut)
                acc.evals += 1
                acc.states += 1
                acc.transitions += 1
                acc.validated += 1
                acc.nontrivial += 1
                for key, msg in viols:
                    acc.violation(key, msg[:1200], {'kind': 'cut',
                                                    'name': name,
                                                    'cut': cut})
                acc.outcome('ok' if not viols else 'violation')
            acc.sample({'file': name, 'bytes': len(data)}, 1)
        else:
            for hi, (hs, cs, ce, sid, nlb) in enumerate(lay):
                if sid not in spec.CONTENT_IDS or hi != unit[1]:
                    continue
                for p in PERTURB:
                    viols = check_perturb(name, data, ref, lay, hi, p)
                    acc.evals += 1
                    acc.transitions += 1
                    acc.validated += 1
                    acc.nontrivial += 1
                    for key, msg in viols:
                        acc.violation(key, msg[:1200],
                                      {'kind': 'perturb', 'name': name,
                                       'header': hi, 'p': p})
                    acc.outcome('ok' if not viols else 'violation')
        return acc
    fs = files(tier)
    fi = unit[1]
    name, data = fs[fi]
    ref_recs, exc, _, _ = read_all(data)
    if exc is not None:
        acc.violation('base-file-rejected:%s' % name, repr(exc),
                      {'kind': 'none'})
        return acc
    ref = [rec_core(r) for r in ref_recs]
    lay = layout(data)
    if unit[0] == 'cut':
        for cut in range(unit[2], unit[3]):
            viols = check_cut(name, data, ref, lay, cut)
            acc.evals += 1
            acc.states += 1
            acc.transitions += 1
            acc.validated += 1
            if cut_class(lay, cut)[0] == 'inside-content':
                acc.nontrivial += 1
            for key, msg in viols:
                acc.violation(key, msg, {'kind': 'cut', 'file': fi,
                                         'name': name, 'cut': cut})
            acc.outcome('ok' if not viols else 'violation')
        acc.sample({'file': name, 'cuts': [unit[2], unit[3] - 1]}, 1)
    else:
        for hi, (hs, cs, ce, sid, nlb) in enumerate(lay):
            if sid not in spec.CONTENT_IDS:
                continue
            for p in PERTURB:
                viols = check_perturb(name, data, ref, lay, hi, p)
                acc.evals += 1
                acc.states += 1
                acc.transitions += 1
                acc.validated += 1
                acc.nontrivial += 1
                for key, msg in viols:
                    acc.violation(key, msg, {'kind': 'perturb', 'file': fi,
                                             'name': name, 'header': hi,
                                             'p': p})
                acc.outcome('ok' if not viols else 'violation')
        acc.sample({'file': name, 'perturbations': PERTURB[:6]}, 1)
    return acc


def replay(payload):
    k = payload.get('kind')
    if k not in ('cut', 'perturb'):
        return []
    fs = files('thorough') + huge_files()
    cand = [(n, d) for n, d in fs if n == payload['name']]
    name, data = cand[0]
    ref_recs, exc, _, _ = read_all(data)
    ref = [rec_core(r) for r in ref_recs]
    lay = layout(data)
    if k == 'cut':
        viols = check_cut(name, data, ref, lay, payload['cut'])
    else:
        viols = check_perturb(name, data, ref, lay, payload['header'],
                              payload['p'])
    return [{'key': k_, 'msg': m} for k_, m in viols]
