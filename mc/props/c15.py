"""C15 -- newline / BOM handling depends on the codec, not on its spelling."""
import codecs
import encodings
import encodings.aliases
import pkgutil
import re

from pydiffx.utils.text import get_newline_for_type, guess_line_endings

from mc import spec
from mc.explore import Acc
from mc.observe import read_all, run_writer, site_of, typed_eq
from mc.spec import to_jsonable, from_jsonable

ID = 'C15'
LEVEL = 'model_checking'

VALUE_RE = re.compile(r'[A-Za-z0-9/._-]+')
PROBES = ['é', 'я', '日', 'ก', 'א', 'α', 'ş', 'ł', 'ا']


def probe_char(codec):
    for c in PROBES:
        try:
            if c.encode(codec).decode(codec) == c:
                return c
        except Exception:
            continue
    return None


def stateless_text_codec(name):
    """Measured predicate: a text codec whose encoding of a concatenation
    is the concatenation of encodings (minus its measured signature), that
    round-trips and can encode LF and CR."""
    try:
        info = codecs.lookup(name)
        if getattr(info, '_is_text_encoding', True) is False:
            return False
        sig = ''.encode(name)

        def e(s):
            b = s.encode(name)
            assert b.startswith(sig)
            return b[len(sig):]
        c = probe_char(name) or 'z'
        parts = ['a', '\n', '\r\n', 'Z\n', c, c + c, 'a' + c + '\n']
        for x in parts:
            for y in parts:
                if e(x + y) != e(x) + e(y):
                    return False
                if (x + y).encode(name).decode(name) != x + y:
                    return False
        if not e('\n') or not e('\r'):
            return False
        # fixed-width for ASCII (excludes escape-style codecs such as
        # unicode_escape whose "newline" is the two characters \ and n)
        if len(e('\n')) != len(e('a')) or len(e('\r')) != len(e('a')):
            return False
        # LF must not occur inside the encoding of other characters
        if e('\n') in e('a' + c + 'Z\r'):
            return False
        return True
    except Exception:
        return False


def catalogue():
    names = set(encodings.aliases.aliases.keys()) | \
        set(encodings.aliases.aliases.values())
    for m in pkgutil.iter_modules(encodings.__path__):
        names.add(m.name)
    names |= {'utf-8', 'utf-16', 'utf-16-le', 'utf-16-be', 'utf-32',
              'utf-32-le', 'utf-32-be', 'utf-8-sig', 'latin-1', 'ascii'}
    canon = {}
    for n in sorted(names):
        if n in ('aliases', 'mbcs', 'oem'):
            continue
        try:
            info = codecs.lookup(n)
        except Exception:
            continue
        canon.setdefault(info.name, set()).add(n)
    out = {}
    for cname, listed in sorted(canon.items()):
        if stateless_text_codec(cname):
            out[cname] = listed
    return out


def spellings(cname, listed):
    cand = set(listed) | {cname}
    more = set()
    for n in cand:
        for v in (n, n.lower(), n.upper(), n.title()):
            more |= {v, v.replace('_', '-'), v.replace('-', '_'),
                     v.replace('_', '').replace('-', '')}
    keep = []
    for s in sorted(more):
        if not VALUE_RE.fullmatch(s) or re.fullmatch(r'-?[0-9]+', s):
            continue
        try:
            if codecs.lookup(s).name != cname:
                continue
        except Exception:
            continue
        keep.append(s)
    return keep


def texts_for(cname):
    c = probe_char(cname)
    t = ['a\n', 'a\r\nb', '\n']
    if c:
        t.append('x' + c + '\n' + c)
    return t


def long_text(cname, n):
    """n characters in lines of 80, with the codec's probe character."""
    c = probe_char(cname) or 'y'
    line = 'long ' + c + 'x' * 73 + '\n'
    return (line * (n // 80 + 1))[:n]


LONG_SIZES_Q = [300001]
LONG_SIZES_T = [150001, 300001, 1100001]


def check_helpers(sp, cname):
    v = []
    for kind in ('unix', 'dos'):
        want = spec.nl(kind, cname)
        try:
            got = get_newline_for_type(kind, encoding=sp)
        except Exception as e:
            v.append(('get-newline-raised:%s' % type(e).__name__,
                      '%s (%s): %r' % (sp, cname, e)))
            continue
        if got != want:
            v.append(('get-newline-for-type:%s' % family(cname),
                      'get_newline_for_type(%r, %r) = %r, the BOM-free '
                      'encoding is %r' % (kind, sp, got, want)))
        data = spec.enc_nobom('a' + {'unix': '\n', 'dos': '\r\n'}[kind] +
                              'b', cname)
        try:
            g = guess_line_endings(data, encoding=sp)
        except Exception as e:
            v.append(('guess-raised:%s' % type(e).__name__,
                      '%s: %r' % (sp, e)))
            continue
        if tuple(g) != (kind, want):
            v.append(('guess-line-endings:%s' % family(cname),
                      'guess_line_endings(%r, %r) = %r, expected %r'
                      % (data, sp, g, (kind, want))))
    return v


def family(cname):
    for f in ('utf-16', 'utf-32', 'utf-8'):
        if cname.startswith(f):
            return f
    return 'other'


def check_roundtrip(sp, cname, kind, indent, text, container):
    """Writer -> bytes == spec serialisation with the same spelling;
    reader returns the text."""
    v = []
    if container:
        calls = [['change', sp], ['preamble', text, None, indent, kind,
                                  None],
                 ['file', None], ['meta', {'k': 'v'}, None]]
    else:
        calls = [['preamble', text, sp, indent, kind, None],
                 ['change', None], ['file', None],
                 ['meta', {'k': 'v'}, sp]]
    want, want_recs = spec.serialize(calls, 'utf-8')
    try:
        w, s, offs = run_writer(calls, 'utf-8')
    except Exception as e:
        return [('writer-raised:%s:%s' % (type(e).__name__, site_of(e)),
                 '%s: %r' % (sp, e))]
    data = s.getvalue()
    if data != want:
        v.append(('writer-bytes:%s' % family(cname),
                  'spelling %r (%s) %s indent %d text %r:\n wrote     %r\n '
                  'BOM-free  %r' % (sp, cname, kind, indent, text,
                                    data[:160], want[:160])))
    recs, exc, _, _ = read_all(want)
    if exc is not None:
        v.append(('reader-raised:%s:%s' % (type(exc).__name__,
                                           site_of(exc)),
                  'spelling %r: %r' % (sp, exc)))
    else:
        idx = 2 if container else 1
        if not typed_eq(recs[idx].get('text'), want_recs[idx]['text']):
            v.append(('reader-text:%s' % family(cname),
                      'spelling %r (%s): read %r, expected %r'
                      % (sp, cname, recs[idx].get('text'),
                         want_recs[idx]['text'])))
    # agreement: writer output read back
    recs2, exc2, _, _ = read_all(data)
    if exc2 is None and len(recs2) > (2 if container else 1):
        idx = 2 if container else 1
        if not typed_eq(recs2[idx].get('text'), want_recs[idx]['text']):
            v.append(('roundtrip-text:%s' % family(cname),
                      'spelling %r (%s): wrote %r, read back %r'
                      % (sp, cname, want_recs[idx]['text'],
                         recs2[idx].get('text'))))
    elif exc2 is not None and data == want:
        pass
    elif exc2 is not None:
        v.append(('roundtrip-raised:%s' % type(exc2).__name__,
                  'spelling %r: %r' % (sp, exc2)))
    return v


def plan(tier):
    cat = catalogue()
    units = sorted(cat)
    nsp = sum(len(spellings(c, l)) for c, l in cat.items())
    return {
        'units': units,
        'rule': 'the platform\'s codec catalogue computed at run time '
                '(every name and alias known to the encodings package), '
                'kept iff it passes the measured statelessness predicate: '
                '%d codecs; for each every spelling (as listed, lower / '
                'UPPER / Title, "-" <-> "_" <-> none, every registered '
                'alias) that resolves to the same codec, fits the option '
                'value grammar and is not purely numeric: %d spellings; x '
                '{unix, dos} x indent {0, 4} x 3-4 texts inside the codec\'s '
                'repertoire x {declared on the section%s}. Oracle: '
                'get_newline_for_type / guess_line_endings == BOM-free '
                'encoding of LF / CRLF (signature measured, not looked up); '
                'writer bytes == reference bytes with the same spelling; '
                'reader returns the text. Non-trivial: spelling differs from '
                'the canonical lower-case hyphenated name.'
                % (len(cat), nsp, ', inherited from a container'
                   if tier == 'thorough' else ''),
        'bound': 'whole catalogue',
        'exhaustive': True,
        'assumptions': ['codecs that fail the statelessness predicate '
                        '(iso2022_*, hz, utf_7, idna, punycode, byte '
                        'transforms) are outside the property'],
    }


def run_unit(cname, tier):
    acc = Acc()
    cat = catalogue()
    sps = spellings(cname, cat[cname])
    for sp in sps:
        nt = sp != cname
        viols = check_helpers(sp, cname)
        acc.evals += 1
        acc.transitions += 4
        acc.validated += 1
        if nt:
            acc.nontrivial += 1
        for key, msg in viols:
            acc.violation(key, msg, {'kind': 'helpers', 'sp': sp,
                                     'cname': cname})
        for kind in ('unix', 'dos'):
            for indent in (0, 4):
                for text in texts_for(cname):
                    for container in ([False, True] if tier == 'thorough'
                                      else [False]):
                        viols = check_roundtrip(sp, cname, kind, indent,
                                                text, container)
                        acc.evals += 1
                        acc.states += 1
                        acc.transitions += 3
                        acc.validated += 1
                        if nt:
                            acc.nontrivial += 1
                        for key, msg in viols:
                            acc.violation(key, msg, {
                                'kind': 'rt', 'sp': sp, 'cname': cname,
                                'le': kind, 'indent': indent, 'text': text,
                                'container': container})
                        acc.outcome('ok' if not viols else 'violation')
        # long content under every spelling (size x spelling together)
        for n in (LONG_SIZES_Q if tier == 'quick' else LONG_SIZES_T):
            for container in ([False, True] if tier == 'thorough'
                              else [False]):
                text = long_text(cname, n)
                viols = check_roundtrip(sp, cname, 'unix', 4, text,
                                        container)
                acc.evals += 1
                acc.states += 1
                acc.transitions += 3
                acc.validated += 1
                if nt:
                    acc.nontrivial += 1
                for key, msg in viols:
                    acc.violation(key + ':long', msg[:600], {
                        'kind': 'rt-long', 'sp': sp, 'cname': cname,
                        'n': n, 'container': container})
                acc.outcome('ok' if not viols else 'violation')
    acc.sample({'codec': cname, 'spellings': sps[:8]}, 1)
    return acc


def replay(payload):
    if payload.get('kind') == 'helpers':
        viols = check_helpers(payload['sp'], payload['cname'])
    elif payload.get('kind') == 'rt':
        viols = check_roundtrip(payload['sp'], payload['cname'],
                                payload['le'], payload['indent'],
                                payload['text'], payload['container'])
    elif payload.get('kind') == 'rt-long':
        viols = check_roundtrip(payload['sp'], payload['cname'], 'unix', 4,
                                long_text(payload['cname'], payload['n']),
                                payload['container'])
        return [{'key': k + ':long', 'msg': m[:600]} for k, m in viols]
    else:
        viols = []
    return [{'key': k, 'msg': m} for k, m in viols]
