"""C15 -- newline / BOM handling depends on the codec, not on its spelling."""
import codecs
import encodings
import encodings.aliases
import pkgutil
import re

from pydiffx.utils.text import get_newline_for_type, guess_line_endings

from mc import spec
from mc.explore import Acc
from mc.observe import read_all, run_writer, site_of, typed_eq
from mc.spec import to_jsonable, from_jsonable

ID = 'C15'
LEVEL = 'model_checking'

VALUE_RE = re.compile(r'[A-Za-z0-9/._-]+')
PROBES = ['é', 'я', '日', 'ก', 'א', 'α', 'ş', 'ł', 'ا']


def probe_char(codec):
    for c in PROBES:
        try:
            if c.encode(codec).decode(codec) == c:
                return c
        except Exception:
            continue
    return None


def stateless_text_codec(name):
    """Measured predicate: a text codec whose encoding of a concatenation
    is the concatenation of encodings (minus its measured signature), that
    round-trips and can encode LF and CR."""
    try:
        info = codecs.lookup(name)
        if getattr(info, '_is_text_encoding', True) is False:
            return False
        sig = ''.encode(name)

        def e(s):
            b = s.encode(name)
            assert b.startswith(sig)
            return b[len(sig):]
        c = probe_char(name) or 'z'
        parts = ['a', '\n', '\r\n', 'Z\n', c, c + c, 'a' + c + '\n']
        for x in parts:
            for y in parts:
                if e(x + y) != e(x) + e(y):
                    return False
                if (x + y).encode(name).decode(name) != x + y:
                    return False
        if not e('\n') or not e('\r'):
            return False
        # fixed-width for ASCII (excludes escape-style codecs such as
        # unicode_escape whose "newline" is the two characters \ and n)
        if len(e('\n')) != len(e('a')) or len(e('\r')) != len(e('a')):
            return False
        # LF must not occur inside the encoding of other characters
        if e('\n') in e('a' + c + 'Z\r'):
            return False
        return True
    except Exception:
        return False


def catalogue():
    names = set(encodings.aliases.aliases.keys()) | \
        set(encodings.aliases.aliases.values())
    for m in pkgutil.iter_modules(encodings.__path__):
        names.add(m.name)
    names |= {'utf-8', 'utf-16', 'utf-16-le', 'utf-16-be', 'utf-32',
              'utf-32-le', 'utf-32-be', 'utf-8-sig', 'latin-1', 'ascii'}
    canon = {}
    for n in sorted(names):
        if n in ('aliases', 'mbcs', 'oem'):
            continue
        try:
            info = codecs.lookup(n)
        except Exception:
            continue
        canon.setdefault(info.name, set()).add(n)
    out = {}
    for cname, listed in sorted(canon.items()):
        if stateless_text_codec(cname):
            out[cname] = listed
    return out


def spellings(cname, listed):
    cand = set(listed) | {cname}
    more = set()
    for n in cand:
        for v in (n, n.lower(), n.upper(), n.title()):
            more |= {v, v.replace('_', '-'), v.replace('-', '_'),
                     v.replace('_', '').replace('-', '')}
    keep = []
    for s in sorted(more):
        if not VALUE_RE.fullmatch(s) or re.fullmatch(r'-?[0-9]+', s):
            continue
        try:
            if codecs.lookup(s).name != cname:
                continue
        except Exception:
            continue
        keep.append(s)
    return keep


def texts_for(cname):
    c = probe_char(cname)
    t = ['a\n', 'a\r\nb', '\n']
    if c:
        t.append('x' + c + '\n' + c)
    # characters outside the BMP (surrogate pairs in UTF-16) where the
    # codec has them
    try:
        a = 'a\U00010000\nb\U0001f600c\n\U0010ffff\n'
        if a.encode(cname).decode(cname) == a:
            t.append(a)
    except Exception:
        pass
    return t


def long_text(cname, n):
    """n characters in lines of 80, with the codec's probe character."""
    c = probe_char(cname) or 'y'
    line = 'long ' + c + 'x' * 73 + '\n'
    return (line * (n // 80 + 1))[:n]


LONG_SIZES_Q = [300001]
LONG_SIZES_T = [150001, 300001, 1100001]


def check_helpers(sp, cname):
    v = []
    for kind in ('unix', 'dos'):
        want = spec.nl(kind, cname)
        try:
            got = get_newline_for_type(kind, encoding=sp)
        except Exception as e:
            v.append(('get-newline-raised:%s' % type(e).__name__,
                      '%s (%s): %r' % (sp, cname, e)))
            continue
        if got != want:
            v.append(('get-newline-for-type:%s' % family(cname),
                      'get_newline_for_type(%r, %r) = %r, the BOM-free '
                      'encoding is %r' % (kind, sp, got, want)))
        data = spec.enc_nobom('a' + {'unix': '\n', 'dos': '\r\n'}[kind] +
                              'b', cname)
        try:
            g = guess_line_endings(data, encoding=sp)
        except Exception as e:
            v.append(('guess-raised:%s' % type(e).__name__,
                      '%s: %r' % (sp, e)))
            continue
        if tuple(g) != (kind, want):
            v.append(('guess-line-endings:%s' % family(cname),
                      'guess_line_endings(%r, %r) = %r, expected %r'
                      % (data, sp, g, (kind, want))))
    return v


def family(cname):
    for f in ('utf-16', 'utf-32', 'utf-8'):
        if cname.startswith(f):
            return f
    return 'other'


def check_roundtrip(sp, cname, kind, indent, text, container):
    """Writer -> bytes == spec serialisation with the same spelling;
    reader returns the text."""
    v = []
    if container:
        calls = [['change', sp], ['preamble', text, None, indent, kind,
                                  None],
                 ['file', None], ['meta', {'k': 'v'}, None]]
    else:
        calls = [['preamble', text, sp, indent, kind, None],
                 ['change', None], ['file', None],
                 ['meta', {'k': 'v'}, sp]]
    want, want_recs = spec.serialize(calls, 'utf-8')
    try:
        w, s, offs = run_writer(calls, 'utf-8')
    except Exception as e:
        return [('writer-raised:%s:%s' % (type(e).__name__, site_of(e)),
                 '%s: %r' % (sp, e))]
    data = s.getvalue()
    if data != want:
        v.append(('writer-bytes:%s' % family(cname),
                  'spelling %r (%s) %s indent %d text %r:\n wrote     %r\n '
                  'BOM-free  %r' % (sp, cname, kind, indent, text,
                                    data[:160], want[:160])))
    recs, exc, _, _ = read_all(want)
    if exc is not None:
        v.append(('reader-raised:%s:%s' % (type(exc).__name__,
                                           site_of(exc)),
                  'spelling %r: %r' % (sp, exc)))
    else:
        idx = 2 if container else 1
        if not typed_eq(recs[idx].get('text'), want_recs[idx]['text']):
            v.append(('reader-text:%s' % family(cname),
                      'spelling %r (%s): read %r, expected %r'
                      % (sp, cname, recs[idx].get('text'),
                         want_recs[idx]['text'])))
    # agreement: writer output read back
    recs2, exc2, _, _ = read_all(data)
    if exc2 is None and len(recs2) > (2 if container else 1):
        idx = 2 if container else 1
        if not typed_eq(recs2[idx].get('text'), want_recs[idx]['text']):
            v.append(('roundtrip-text:%s' % family(cname),
                      'spelling %r (%s): wrote %r, read back %r'
                      % (sp, cname, want_recs[idx]['text'],
                         recs2[idx].get('text'))))
    elif exc2 is not None and data == want:
        pass
    elif exc2 is not None:
        v.append(('roundtrip-raised:%s' % type(exc2).__name__,
                  'spelling %r: %r' % (sp, exc2)))
    return v


MANY_PER_FILE = 48


def many_files():
    """All (codec, spelling) pairs distributed over files of 48 sections,
    each section under a DIFFERENT spelling: (a) in catalogue order, (b)
    interleaved so that BOM-emitting codecs follow many others, (c) BOM
    codecs' spellings after 12 / 16 / 17 / 32 / 40 other encodings."""
    cat = catalogue()
    pairs = [(c, sp) for c in sorted(cat) for sp in spellings(c, cat[c])]
    bom = [p_ for p_ in pairs if ''.encode(p_[0])]
    plain = [p_ for p_ in pairs if not ''.encode(p_[0])]
    files = []
    for lo in range(0, len(pairs), MANY_PER_FILE):
        files.append(pairs[lo:lo + MANY_PER_FILE])
    # one spelling per plain codec first, then BOM spellings
    firsts = []
    seen = set()
    for c, sp in plain:
        if c not in seen:
            seen.add(c)
            firsts.append((c, sp))
    for k in (12, 15, 16, 17, 32, 40, len(firsts)):
        for lo in range(0, len(bom), 24):
            files.append(firsts[:k] + bom[lo:lo + 24])
    return files


def check_many(pairs_, le, use_diff):
    """One file, one section per (codec, spelling); writer bytes ==
    reference, reader returns every text."""
    calls = []
    for idx, (c, sp) in enumerate(pairs_):
        ch = probe_char(c) or 'y'
        text = 'x' + ch + ('\r\n' if le == 'dos' else '\n') + 'second'
        if idx % 2:
            # declared on a container, inherited by its sections; the next
            # sibling declares nothing and is back to the main encoding
            calls.append(['change', sp])
            calls.append(['preamble', text, None, 2, le, None])
            calls.append(['file', None])
            calls.append(['meta', {'k': 'v'}, None])
            calls.append(['change', None])
            calls.append(['preamble', 'sibling é' + text[2:], None, 2, le,
                          None])
            calls.append(['file', None])
            calls.append(['meta', {'k': 'w'}, None])
            continue
        calls.append(['change', None])
        calls.append(['preamble', text, sp, 2, le, None])
        calls.append(['file', None])
        calls.append(['meta', {'k': 'v'}, sp])
        if use_diff:
            nlb = spec.nl(le, c)
            body = spec.enc_nobom('+a', c) + nlb + spec.enc_nobom('-b', c) \
                + nlb
            calls.append(['diff', body, None, sp, le])
    v = []
    want, want_recs = spec.serialize(calls, 'utf-8')
    try:
        w, st, offs = run_writer(calls, 'utf-8')
        data = st.getvalue()
        if data != want:
            i = next((k for k, (a, b) in enumerate(zip(data, want))
                      if a != b), min(len(data), len(want)))
            v.append(('writer-bytes:many-encodings',
                      'file with %d differently spelled encodings: first '
                      'difference at byte %d: %r vs %r'
                      % (len(pairs_), i, data[i - 40:i + 40],
                         want[i - 40:i + 40])))
    except Exception as e:
        v.append(('writer-raised:%s:%s:many-encodings'
                  % (type(e).__name__, site_of(e)), repr(e)))
    recs, exc, _, _ = read_all(want)
    if exc is not None:
        v.append(('reader-raised:%s:%s:many-encodings'
                  % (type(exc).__name__, site_of(exc)),
                  'file with %d differently spelled encodings (%s ...): %r'
                  % (len(pairs_), [sp for c, sp in pairs_[:3]], exc)))
    else:
        for r, wr in zip(recs, want_recs):
            if 'text' in wr and not typed_eq(r.get('text'), wr['text']):
                v.append(('reader-text:many-encodings',
                          'section at line %r: %r expected %r'
                          % (r.get('line'), r.get('text'), wr['text'])))
                break
            if 'diff' in wr and not typed_eq(r.get('diff'), wr['diff']):
                v.append(('reader-diff:many-encodings',
                          'section at line %r' % (r.get('line'),)))
                break
    return v


def adjacent_chars():
    """BMP characters one of whose UTF-16 code-unit bytes is a byte the
    newline sequences are made of (0x0A, 0x0D, 0x00)."""
    out = []
    for cp in range(0x100, 0x10000):
        if 0xD800 <= cp <= 0xDFFF:
            continue
        if (cp >> 8) in (0x0A, 0x0D, 0x00) or (cp & 0xFF) in (0x0A, 0x0D,
                                                              0x00):
            out.append(cp)
    return out + [0x10000, 0x1F600, 0x10A0D, 0x100000]


WIDE = ['utf-16', 'utf-16-le', 'utf-16-be', 'utf-32', 'utf-32-le',
        'utf-32-be']


def check_adjacent(sp, cname, cp):
    from mc.alphabets import misaligned
    ch = chr(cp)
    v = []
    for kind, nlt in (('unix', '\n'), ('dos', '\r\n')):
        text = 'a' + ch + nlt + ch + 'b' + nlt + ch + nlt
        data = spec.enc_nobom(text, cname)
        if misaligned(data, cname):
            continue
        want = spec.nl(kind, cname)
        try:
            g = tuple(guess_line_endings(data, encoding=sp))
        except Exception as e:
            return [('guess-raised:%s' % type(e).__name__, repr(e))]
        if g != (kind, want):
            v.append(('guess-line-endings:%s:adjacent-bytes'
                      % family(cname),
                      'U+%04X before the newline: guess_line_endings(%r, '
                      '%r) = %r, expected %r' % (cp, data[:24], sp, g,
                                                 (kind, want))))
            continue
        calls = [['change', None], ['file', None], ['meta', {'k': 'v'}, None],
                 ['diff', data, None, sp, None]]
        wantb, _ = spec.serialize(calls, 'utf-8')
        try:
            w, st, offs = run_writer(calls, 'utf-8')
            if st.getvalue() != wantb:
                v.append(('writer-bytes:%s:adjacent-bytes' % family(cname),
                          'U+%04X: diff written as %r, expected %r'
                          % (cp, st.getvalue()[-60:], wantb[-60:])))
        except Exception as e:
            v.append(('writer-raised:%s:%s:adjacent-bytes'
                      % (type(e).__name__, site_of(e)), repr(e)))
    return v


# ------------------------------------------------ line-level interleavings
# The text helpers are pure functions of their arguments; two threads that
# call them with different encodings get what they get alone -- checked with
# EVERY LINE of pydiffx/utils/text.py as a scheduling point (one preemption;
# two in the thorough tier).

LINE_SEQS = [
    [('nl', 'unix', 'latin-1'), ('nl', 'unix', 'UTF-16'),
     ('guess', 'UTF-16'), ('nl', 'dos', 'U32')],
    [('nl', 'dos', 'cp1252'), ('nl', 'unix', 'UTF-16'),
     ('nl', 'unix', 'utf_8_sig'), ('guess', 'utf_16')],
    [('nl', 'unix', 'utf-16'), ('nl', 'unix', 'utf-8'),
     ('guess', 'utf-32'), ('nl', 'dos', 'UTF-32')],
]


def _line_body(seq):
    def body(ctl):
        from pydiffx.utils.text import strip_bom
        out = []
        for op in seq:
            if op[0] == 'nl':
                out.append(get_newline_for_type(op[1], encoding=op[2]))
                out.append(strip_bom('x\n'.encode(op[2]), op[2]))
            else:
                data = spec.enc_nobom('a\r\nb\n', codecs.lookup(op[1]).name)
                out.append(tuple(guess_line_endings(data, encoding=op[1])))
        return out
    return body


def run_line_unit(unit, tier):
    from mc import sched
    acc = Acc()
    _, ia, ib = unit
    sa, sb = LINE_SEQS[ia], LINE_SEQS[ib]
    want = [_line_body(sa)(None), _line_body(sb)(None)]

    def make():
        return [_line_body(sa), _line_body(sb)], None

    def check(x, ctx):
        v = []
        for t in range(2):
            if x.errors[t] is not None:
                v.append(('interleaved-helper-raised:%s:%s'
                          % (type(x.errors[t]).__name__,
                             site_of(x.errors[t])), repr(x.errors[t])))
            elif x.results[t] != want[t]:
                bad = next(i for i, (a, b) in enumerate(
                    zip(x.results[t], want[t])) if a != b)
                v.append(('interleaved-helper-result-differs',
                          'thread %d, result %d: %r, alone %r'
                          % (t, bad, x.results[t][bad], want[t][bad])))
        acc.evals += 1
        acc.transitions += len(x.trace)
        acc.validated += 1
        acc.nontrivial += 1
        acc.outcome('ok' if not v else 'violation')
        return v
    n, ntraces, viols, capped = sched.explore(
        make, check, bound=1 if tier == 'quick' else 2,
        trace_files=('pydiffx/utils/text.py',))
    acc.states = ntraces
    seen = set()
    for trace, choices, (key, msg) in viols:
        if key in seen:
            continue
        seen.add(key)
        acc.violation(key, '%s\nsequences %r / %r' % (msg, sa, sb),
                      {'kind': 'lines', 'seqs': [ia, ib],
                       'choices': list(choices)})
    acc.sample({'line_level_interleavings': n, 'sequences': [ia, ib]}, 1)
    return acc


def replay_lines(payload):
    from mc import sched
    ia, ib = payload['seqs']
    sa, sb = LINE_SEQS[ia], LINE_SEQS[ib]
    want = [_line_body(sa)(None), _line_body(sb)(None)]
    x = sched.Execution([_line_body(sa), _line_body(sb)], payload['choices'],
                        ('pydiffx/utils/text.py',)).run()
    out = []
    for t in range(2):
        if x.errors[t] is not None:
            out.append(('interleaved-helper-raised:%s:%s'
                        % (type(x.errors[t]).__name__, site_of(x.errors[t])),
                        repr(x.errors[t])))
        elif x.results[t] != want[t]:
            out.append(('interleaved-helper-result-differs', 'thread %d' % t))
    return out


def plan(tier):
    cat = catalogue()
    units = sorted(cat)
    units += [('lines', a, b) for a in range(len(LINE_SEQS))
              for b in range(a, len(LINE_SEQS))]
    units += [('adjacent', c) for c in WIDE if c in cat]
    units += [('threads', a, b) for a, b in [(0, 1), (2, 3), (1, 4)]]
    from mc import wrgraph as _w
    units += _w.live_units()
    units += [('many', i) for i in range(len(many_files()))]
    nsp = sum(len(spellings(c, l)) for c, l in cat.items())
    return {
        'units': units,
        'rule': 'the platform\'s codec catalogue computed at run time '
                '(every name and alias known to the encodings package), '
                'kept iff it passes the measured statelessness predicate: '
                '%d codecs; for each every spelling (as listed, lower / '
                'UPPER / Title, "-" <-> "_" <-> none, every registered '
                'alias) that resolves to the same codec, fits the option '
                'value grammar and is not purely numeric: %d spellings; x '
                '{unix, dos} x indent {0, 4} x 3-4 texts inside the codec\'s '
                'repertoire x {declared on the section%s}. Oracle: '
                'get_newline_for_type / guess_line_endings == BOM-free '
                'encoding of LF / CRLF (signature measured, not looked up); '
                'writer bytes == reference bytes with the same spelling; '
                'reader returns the text. Non-trivial: spelling differs from '
                'the canonical lower-case hyphenated name.'
                % (len(cat), nsp, ', inherited from a container'
                   if tier == 'thorough' else ''),
        'bound': 'whole catalogue',
        'exhaustive': True,
        'assumptions': ['codecs that fail the statelessness predicate '
                        '(iso2022_*, hz, utf_7, idna, punycode, byte '
                        'transforms) are outside the property'],
    }


def run_unit(cname, tier):
    acc = Acc()
    if isinstance(cname, tuple) and cname[0] == 'lines':
        return run_line_unit(cname, tier)
    if isinstance(cname, tuple) and cname[0] == 'threads':
        # two threads, each writing and reading its own file (different inherited encodings, same line_endings values), every
        # interleaving with <= 2 / 3 preemptions (mc/sched.py)
        from mc import wrgraph
        return wrgraph.run_thread_unit(cname, tier, Acc)
    if isinstance(cname, tuple) and cname[0] == 'live':
        # two writers / two readers alive in one thread, calls merged in
        # every order: newline bytes belong to the section, not the process
        from mc import wrgraph
        return wrgraph.run_live_unit(cname, tier, Acc)
    if isinstance(cname, tuple) and cname[0] == 'adjacent':
        c = cname[1]
        cat = catalogue()
        sps = spellings(c, cat[c])
        pick = [c] + [x for x in sps if x != c][:1] + \
            [x for x in sps if x != c][-1:]
        for sp in dict.fromkeys(pick):
            for cp in adjacent_chars():
                viols = check_adjacent(sp, c, cp)
                acc.evals += 1
                acc.states += 1
                acc.transitions += 2
                acc.validated += 1
                acc.nontrivial += 1
                for key, msg in viols:
                    acc.violation(key, msg, {'kind': 'adjacent', 'sp': sp,
                                             'cname': c, 'cp': cp})
                acc.outcome('ok' if not viols else 'violation')
        acc.sample({'adjacent_byte_characters': len(adjacent_chars()),
                    'codec': c, 'spellings': list(dict.fromkeys(pick))}, 1)
        return acc
    if isinstance(cname, tuple) and cname[0] == 'many':
        pairs_ = many_files()[cname[1]]
        for le in ('unix', 'dos'):
            for use_diff in (False, True):
                viols = check_many(pairs_, le, use_diff)
                acc.evals += 1
                acc.states += 1
                acc.transitions += 3
                acc.validated += 1
                acc.nontrivial += 1
                for key, msg in viols:
                    acc.violation(key, msg[:800], {'kind': 'many',
                                                   'index': cname[1],
                                                   'le': le,
                                                   'diff': use_diff})
                acc.outcome('ok' if not viols else 'violation')
        acc.sample({'many_encodings_in_one_file':
                    [sp for c, sp in pairs_[:6]]}, 1)
        return acc
    cat = catalogue()
    sps = spellings(cname, cat[cname])
    for sp in sps:
        nt = sp != cname
        viols = check_helpers(sp, cname)
        acc.evals += 1
        acc.transitions += 4
        acc.validated += 1
        if nt:
            acc.nontrivial += 1
        for key, msg in viols:
            acc.violation(key, msg, {'kind': 'helpers', 'sp': sp,
                                     'cname': cname})
        for kind in ('unix', 'dos'):
            for indent in (0, 4):
                for text in texts_for(cname):
                    for container in ([False, True] if tier == 'thorough'
                                      else [False]):
                        viols = check_roundtrip(sp, cname, kind, indent,
                                                text, container)
                        acc.evals += 1
                        acc.states += 1
                        acc.transitions += 3
                        acc.validated += 1
                        if nt:
                            acc.nontrivial += 1
                        for key, msg in viols:
                            acc.violation(key, msg, {
                                'kind': 'rt', 'sp': sp, 'cname': cname,
                                'le': kind, 'indent': indent, 'text': text,
                                'container': container})
                        acc.outcome('ok' if not viols else 'violation')
        # long content under every spelling (size x spelling together)
        for n in (LONG_SIZES_Q if tier == 'quick' else LONG_SIZES_T):
            for container in ([False, True] if tier == 'thorough'
                              else [False]):
                text = long_text(cname, n)
                viols = check_roundtrip(sp, cname, 'unix', 4, text,
                                        container)
                acc.evals += 1
                acc.states += 1
                acc.transitions += 3
                acc.validated += 1
                if nt:
                    acc.nontrivial += 1
                for key, msg in viols:
                    acc.violation(key + ':long', msg[:600], {
                        'kind': 'rt-long', 'sp': sp, 'cname': cname,
                        'n': n, 'container': container})
                acc.outcome('ok' if not viols else 'violation')
    acc.sample({'codec': cname, 'spellings': sps[:8]}, 1)
    return acc


def replay(payload):
    if payload.get('kind') == 'helpers':
        viols = check_helpers(payload['sp'], payload['cname'])
    elif payload.get('kind') == 'rt':
        viols = check_roundtrip(payload['sp'], payload['cname'],
                                payload['le'], payload['indent'],
                                payload['text'], payload['container'])
    elif payload.get('kind') == 'lines':
        viols = replay_lines(payload)
    elif payload.get('kind') == 'threads':
        from mc import wrgraph
        viols = wrgraph.replay_threads(payload)
    elif payload.get('kind') == 'live':
        from mc import wrgraph
        viols = wrgraph.replay_live(payload)
    elif payload.get('kind') == 'adjacent':
        viols = check_adjacent(payload['sp'], payload['cname'],
                               payload['cp'])
    elif payload.get('kind') == 'many':
        viols = check_many(many_files()[payload['index']], payload['le'],
                           payload['diff'])
        return [{'key': k, 'msg': m[:800]} for k, m in viols]
    elif payload.get('kind') == 'rt-long':
        viols = check_roundtrip(payload['sp'], payload['cname'], 'unix', 4,
                                long_text(payload['cname'], payload['n']),
                                payload['container'])
        return [{'key': k + ':long', 'msg': m[:600]} for k, m in viols]
    else:
        viols = []
    return [{'key': k, 'msg': m} for k, m in viols]
