"""C01 -- streaming write -> read round trip (DESIGN 5 C01)."""
from mc import wrgraph
from mc.spec import from_jsonable

ID = 'C01'
LEVEL = 'model_checking'


def plan(tier):
    units, info = wrgraph.wr_plan(tier)
    units = units + wrgraph.scale_units(tier)[0] + wrgraph.thread_units() + wrgraph.live_units() + \
        wrgraph.sink_units() + \
        wrgraph.small_text_units(tier)
    return {
        'units': units,
        'rule': '(a) from every canonical state of the closed writer+reader '
                'state graph (frozen real objects; %d states, closed=%s) every '
                'legal content call with %s; (b) whole files: 5-6 skeletons '
                '(<=3 changes x <=3 files) with every choice vector of <= %d '
                'non-default arguments anywhere in the file. Each execution '
                'writes with the real DiffXWriter into an append-only stream, '
                'reads back with the real DiffXReader and compares every '
                'record with by-construction expectations; plus two threads '
                'each writing and reading back its own file (3 documents, all '
                '6 pairs) under the controlled scheduler of mc/sched.py: every '
                'interleaving of their stream writes / reads with <= 2 '
                '(thorough 3) preemptions must give each thread the bytes '
                'and records it gets alone; plus two writers (then two '
                'readers) alive in ONE thread, their calls merged in every '
                'order (readers in the quick tier: <= 4 switches), 5 renderings of the same '
                'calls, all 15 pairs; plus 6 documents written into 7 kinds '
                'of sink (write() returning None or the count, raw and '
                'buffered files, BufferedWriter(16), spooled temporary file, '
                'gzip). Non-trivial: >= 2 '
                'containers and a non-default argument or non-UTF-8 effective '
                'encoding.' % (
                    info['graph_states'], info['graph_closed'],
                    'its full argument product' if tier == 'thorough'
                    else '<= 2 deviations from the default argument tuple',
                    2 if tier == 'quick' else 3),
        'bound': 'graph depth <= 9 (closed=%s); per-call %s; files k=%d'
                 % (info['graph_closed'],
                    'full product' if tier == 'thorough' else 'k=2',
                    2 if tier == 'quick' else 3),
        'exhaustive': True,
        'assumptions': [
            'texts / JSON objects / diffs / codecs from mc/alphabets.py',
            'text is encodable in its effective codec (unencodable text is '
            'C09 territory)',
            'record field "line" is not part of C01 (C03 checks it)',
        ],
    }


def oracle(ex):
    return wrgraph.check_roundtrip(ex)


def run_unit(unit, tier):
    if unit[0] == 'small-texts':
        from mc.explore import Acc
        return wrgraph.run_small_text_unit(unit, tier, oracle, Acc)
    if unit[0] == 'threads':
        from mc.explore import Acc
        return wrgraph.run_thread_unit(unit, tier, Acc)
    if unit[0] == 'live':
        from mc.explore import Acc
        return wrgraph.run_live_unit(unit, tier, Acc)
    if unit[0] == 'sinks':
        from mc.explore import Acc
        return wrgraph.run_sink_unit(unit, tier, Acc)
    if unit[0] == 'scale':
        from mc.explore import Acc
        return wrgraph.wr_run_scale_unit(unit, tier, oracle, Acc)
    return wrgraph.wr_run_unit(unit, tier, oracle, True, ID)


def replay(payload):
    if payload.get('kind') == 'threads':
        return [{'key': k, 'msg': m}
                for k, m in wrgraph.replay_threads(payload)]
    if payload.get('kind') == 'sink':
        return [{'key': k, 'msg': m}
                for k, m in wrgraph.replay_sink(payload)]
    if payload.get('kind') == 'live':
        return [{'key': k, 'msg': m}
                for k, m in wrgraph.replay_live(payload)]
    if payload.get('kind') == 'scale':
        cfgs, variants = wrgraph.scale_units('quick')[1:]
        root, enc, le = variants[payload['variant']]
        ex = wrgraph.Exec(wrgraph.scale_calls(payload['cfg'], enc, le), root)
        return [{'key': k + ':scale', 'msg': m} for k, m in oracle(ex)]
    if payload.get('kind') != 'calls':
        return []
    ex = wrgraph.Exec(from_jsonable(payload['calls']), payload['root'])
    suf = payload.get('suffix', '')
    return [{'key': (k + suf).replace(' ', '_').replace('\n', '\\n')[:200],
             'msg': str(m)[:800] if suf else m} for k, m in oracle(ex)]
