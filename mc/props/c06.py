"""C06 -- parse then re-serialise: byte-identical on canonical files,
idempotent fixed point on foreign ones."""
import glob
import itertools
import os

from pydiffx.dom import DiffX
from pydiffx.errors import BaseDiffXError

from mc import spec, gen, wrgraph
from mc.domsnap import snap
from mc.explore import Acc, freeze
from mc.observe import site_of, typed_eq
from mc.props.c03 import base_docs, example_files
from mc.props.c05 import snap_from_records
from mc.spec import to_jsonable, from_jsonable

ID = 'C06'
LEVEL = 'model_checking'


def cycle(data):
    """from_bytes -> to_bytes. Returns (out, tree, exc, stage)."""
    try:
        tree = DiffX.from_bytes(data)
    except Exception as e:
        return None, None, e, 'load'
    try:
        out = tree.to_bytes()
    except Exception as e:
        return None, tree, e, 'write'
    return out, tree, None, None


def check_canonical(ex):
    """Oracle (1): files the library itself produced."""
    if ex.werr is not None:
        return []            # C01/C02/C09 territory
    data = ex.data
    out, tree, exc, stage = cycle(data)
    if exc is not None:
        return [('canonical-%s-raised:%s:%s' % (stage, type(exc).__name__,
                                                site_of(exc)),
                 '%r on a file the writer produced' % (exc,))]
    if out != data:
        i = next((k for k in range(min(len(out), len(data)))
                  if out[k] != data[k]), min(len(out), len(data)))
        sec = data[:i].count(b'\n#') + 1
        line = data[data.rfind(b'\n#', 0, i) + 1:].split(b'\n', 1)[0]
        kind = line.split(b':')[0].lstrip(b'#.').decode('ascii', 'replace')
        return [('canonical-not-reproduced:%s' % kind,
                 'first difference at byte %d (section header %r):\n in  %r\n '
                 'out %r' % (i, line[:60], data[max(0, i - 30):i + 50],
                             out[max(0, i - 30):i + 50]))]
    return []


def content_view(recs):
    return [(r['section'], r.get('text', r.get('metadata', r.get('diff'))))
            for r in recs]


def tree_contents(tree):
    s = snap(tree)
    out = [('diffx', None)]

    def add(node, sid):
        c = node['content']
        if c:
            out.append((sid, c))
    add(s['preamble'], '.preamble')
    add(s['meta'], '.meta')
    for ch in s['changes']:
        out.append(('.change', None))
        add(ch['preamble'], '..preamble')
        add(ch['meta'], '..meta')
        for f in ch['files']:
            out.append(('..file', None))
            add(f['meta'], '...meta')
            add(f['diff'], '...diff')
    return out


def check_foreign(data, label):
    """Oracle (2): well-formed foreign file."""
    pref, perr = spec.parse(data)
    if perr is not None:
        return None
    out, tree, exc, stage = cycle(data)
    if stage == 'load':
        if isinstance(exc, BaseDiffXError):
            return []                    # not accepted by the object model
        return [('foreign-load-raised:%s:%s' % (type(exc).__name__,
                                                site_of(exc)),
                 '%s: %r' % (label, exc))]
    v = []
    # contents carried by the loaded tree equal the reference reading
    want = [(sid, c) for sid, c in content_view(pref)]
    got = tree_contents(tree)
    if not typed_eq(got, want):
        v.append(('foreign-contents-differ:%s' % label,
                  'tree holds %r\n reference reading %r'
                  % (_s(got), _s(want))))
    if stage == 'write':
        v.append(('foreign-reserialise-raised:%s:%s:%s' % (
            type(exc).__name__, site_of(exc).split(':')[1],
            write_failure_cause(exc)),
            '%s: to_bytes() raised %r for a file the object model accepted'
            % (label, exc)))
        return v
    # the output carries the same contents
    oref, oerr = spec.parse(out)
    if oerr is not None:
        v.append(('foreign-output-malformed:%s' % label, oerr.why))
        return v
    if not typed_eq(content_view(oref), content_view(pref)):
        v.append(('foreign-output-contents-differ:%s' % label,
                  'in  %r\n out %r' % (_s(content_view(pref)),
                                       _s(content_view(oref)))))
    out2, tree2, exc2, stage2 = cycle(out)
    if exc2 is not None:
        v.append(('foreign-second-cycle-raised:%s:%s' % (
            type(exc2).__name__, label), repr(exc2)))
    elif out2 != out:
        v.append(('foreign-not-a-fixed-point:%s' % label,
                  'serialising the re-parsed output changes it again'))
    return v


KNOWN_OPTIONS = {'encoding', 'version', 'indent', 'line_endings', 'mimetype',
                 'format', 'type', 'length'}


def write_failure_cause(exc):
    import re
    m = re.search(r"unexpected keyword argument '([^']*)'", str(exc))
    if m:
        name = m.group(1)
        if name == 'line_endings':
            return 'meta-line_endings'
        if name not in KNOWN_OPTIONS:
            return 'unknown-option'
        return 'option-%s' % name
    return 'other'


def _s(x):
    r = repr(x)
    return r if len(r) < 400 else r[:400] + '...'


# metadata the WRITER accepts beyond the JSON types proper (json.dumps
# defaults): non-finite floats, extreme floats, huge integers, keys that are
# not strings. Whatever the writer produced for them is a library-produced
# file and must load and re-serialise byte for byte.
PY_METAS = [
    {'x': float('inf')}, {'x': float('-inf')}, {'x': float('nan')},
    {'l': [float('inf'), {'d': float('nan')}], 'k': 'v'},
    {'x': -0.0}, {'x': 1e308}, {'x': 5e-324}, {'x': 1e22}, {'x': 1e16},
    {'x': 0.1}, {'x': 123456789.123456789}, {'x': 2 ** 64}, {'x': -2 ** 63},
    {'x': 10 ** 400}, {1: 'x'}, {True: 'x'}, {None: 'x'}, {1.5: 'x'},
    {'t': (1, 2)}, {'x': 1.0}, {'x': 1e0}, {'x': 100.0}, {'x': True, 'y': 1},
]


def py_calls(meta, where):
    M = ['meta', {'path': 'f'}, None]
    X = ['meta', meta, None]
    D = ['diff', b'a\n', None, None, None]
    if where == 'main':
        return [X, ['change', None], ['file', None], M, D]
    if where == 'change':
        return [['change', None], X, ['file', None], M]
    return [['change', None], ['file', None], X, D]


def plan(tier):
    units, info = wrgraph.wr_plan(tier, combos_per_unit=300)
    units = units + wrgraph.scale_units(tier)[0]
    docs = base_docs(tier)
    funits = []
    plain = [i for i, d in enumerate(docs) if not d[2]]
    step = 10 if tier == 'quick' else 5
    for i in range(0, len(plain), step):
        funits.append(('foreign', plain[i:i + step], 0, 1))
    K = 8
    for i, d in enumerate(docs):
        if d[2]:
            for k in range(K):
                funits.append(('foreign', [i], k, K))
    funits.append(('examples',))
    funits.append(('python-values',))
    return {
        'units': units + funits,
        'rule': '(1) every byte stream of C01\'s exploration (closed '
                'writer/reader state graph x argument tuples + whole files '
                'with <= 2/3 deviations, %d graph states) is loaded with '
                'DiffX.from_bytes and serialised again: identical bytes; '
                '(2) %d documents of C03\'s independent generator x every '
                'single foreign-producer variation (shuffled options, blank '
                'lines, CRLF headers, compact / raw JSON, omitted optional '
                'options, line_endings on metadata, unknown options; pairs '
                'on rich documents) + the 7 spec examples: if the object '
                'model accepts the file, to_bytes() succeeds, carries the '
                'reference reading\'s contents and is a fixed point. '
                '(3) the scale pass of C01 (boundary sizes of every scalable '
                'quantity) cycled the same way; (4) %d metadata objects '
                'the writer accepts beyond the JSON types proper (inf, nan, '
                'extreme floats, huge integers, non-string keys, tuples) at '
                'every level x 2 main encodings, cycled like (1). '
                'Non-trivial: non-canonical '
                'input or >= 2 encodings.'
                % (info['graph_states'], len(docs), len(PY_METAS)),
        'bound': 'as C01 (graph closed=%s) and C03' % info['graph_closed'],
        'exhaustive': True,
        'assumptions': ['as C01 / C03'],
    }


def run_unit(unit, tier):
    if unit[0] == 'scale':
        return wrgraph.wr_run_scale_unit(unit, tier, check_canonical, Acc)
    if unit[0] in ('state', 'file'):
        return wrgraph.wr_run_unit(unit, tier, check_canonical, True, ID)
    acc = Acc()

    def judge(viols, payload, nt):
        acc.evals += 1
        acc.states += 1
        acc.transitions += 4
        acc.validated += 1
        if nt:
            acc.nontrivial += 1
        for key, msg in viols:
            acc.violation(key, msg, payload)
        acc.outcome('ok' if not viols else 'violation')

    if unit[0] == 'python-values':
        for mi, meta in enumerate(PY_METAS):
            for where in ('main', 'change', 'file'):
                for root in ('utf-8', 'utf-16'):
                    ex = wrgraph.Exec(py_calls(meta, where), root)
                    judge(check_canonical(ex),
                          {'kind': 'python-values', 'index': mi,
                           'where': where, 'root': root},
                          ex.werr is None)
        acc.sample({'python_values': [repr(m) for m in PY_METAS[:6]]}, 1)
        return acc
    if unit[0] == 'examples':
        for name, data in example_files():
            viols = check_foreign(data, 'example')
            judge(viols or [], {'kind': 'foreign', 'label': 'example',
                                'data': to_jsonable(data)}, True)
        acc.sample({'examples': [n for n, d in example_files()]}, 1)
        return acc
    alldocs = base_docs(tier)
    part, nparts = unit[2], unit[3]
    for di in unit[1]:
        root, calls, rich = alldocs[di]
        secs0 = gen.from_calls(calls, root)
        V = gen.variations(secs0)
        combos = [()] + [(i,) for i in range(len(V))]
        if rich:
            idx = [i for i, (lab, f) in enumerate(V)
                   if not lab.startswith('blank:') or
                   lab.startswith("blank:b'\\n'")]
            combos += list(itertools.combinations(idx[::2], 2))
        combos = combos[part::nparts]
        for combo in combos:
            for g in ([None] + gen.GLOBAL_VARIATIONS[:2]
                      if len(combo) <= 1 and rich else [None]):
                secs = [s.clone() for s in secs0]
                labels = []
                for i in combo:
                    V[i][1](secs)
                    labels.append(V[i][0])
                kw = gen.apply_global(g) if g else {}
                if g:
                    labels.append(g)
                data, exp = gen.render(secs, **kw)
                label = '+'.join(sorted(set(
                    (l.split('@')[0].split(':')[0] +
                     (':' + l.split('@')[0].split(':')[1]
                      if l.startswith(('add:', 'drop:')) else ''))
                    for l in labels))) or 'canonical'
                viols = check_foreign(data, label)
                if viols is None:
                    acc.outcome('reference-rejects')
                    continue
                judge(viols, {'kind': 'foreign', 'label': label,
                              'data': to_jsonable(data), 'how': labels},
                      bool(labels))
    acc.sample({'document': [c[:2] for c in alldocs[unit[1][0]][1]][:6]}, 1)
    return acc


def replay(payload):
    k = payload.get('kind')
    if k == 'scale':
        cfgs, variants = wrgraph.scale_units('quick')[1:]
        root, enc, le = variants[payload['variant']]
        ex = wrgraph.Exec(wrgraph.scale_calls(payload['cfg'], enc, le), root)
        return [{'key': k_ + ':scale', 'msg': m}
                for k_, m in check_canonical(ex)]
    if k == 'python-values':
        ex = wrgraph.Exec(py_calls(PY_METAS[payload['index']],
                                   payload['where']), payload['root'])
        viols = check_canonical(ex)
    elif k == 'calls':
        ex = wrgraph.Exec(from_jsonable(payload['calls']), payload['root'])
        viols = check_canonical(ex)
    elif k == 'foreign':
        viols = check_foreign(from_jsonable(payload['data']),
                              payload['label']) or []
    else:
        viols = []
    return [{'key': k_, 'msg': m} for k_, m in viols]
