"""C02 -- writer output is spec-conformant and canonical (DESIGN 5 C02)."""
from mc import wrgraph
from mc.spec import from_jsonable

ID = 'C02'
LEVEL = 'model_checking'


def plan(tier):
    units, info = wrgraph.wr_plan(tier)
    units = units + wrgraph.scale_units(tier)[0] + [('unencodable',)] + \
        wrgraph.small_text_units(tier)
    return {
        'units': units,
        'rule': '(a) from every canonical state of the closed writer+reader '
                'state graph (frozen real objects; %d states, closed=%s) every '
                'legal content call with %s; (b) whole files: 5-6 skeletons '
                '(<=3 changes x <=3 files) with every choice vector of <= %d '
                'non-default arguments anywhere in the file. Each execution '
                'writes with the real DiffXWriter into an append-only stream, '
                'compares the bytes with the independent serializer '
                'of mc/spec.py byte for byte and walks them with an '
                'independent validator (grammar, option order, ids, exact '
                'lengths, BOM-free final newline, indent, canonical JSON). Non-trivial: >= 2 '
                'containers and a non-default argument or non-UTF-8 effective '
                'encoding.' % (
                    info['graph_states'], info['graph_closed'],
                    'its full argument product' if tier == 'thorough'
                    else '<= 2 deviations from the default argument tuple',
                    2 if tier == 'quick' else 3),
        'bound': 'graph depth <= 9 (closed=%s); per-call %s; files k=%d'
                 % (info['graph_closed'],
                    'full product' if tier == 'thorough' else 'k=2',
                    2 if tier == 'quick' else 3),
        'exhaustive': True,
        'assumptions': [
            'texts / JSON objects / diffs / codecs from mc/alphabets.py',
            'text is encodable in its effective codec (unencodable text is '
            'C09 territory)',
            'INDENTED texts whose UTF-16/32 bytes contain a misaligned '
            'newline byte pattern are excluded (line = text line vs byte '
            'pattern is ambiguous in the specification); un-indented ones '
            'are in (nothing is split there)',
        ],
    }


def oracle(ex):
    v = wrgraph.check_bytes(ex)
    if not v and ex.werr is None and len(ex.data) < 200000 and \
            len(set(repr(c[1]) for c in ex.calls if c[0] == 'meta')) >= 2:
        # the caller re-uses its argument objects between calls
        from mc.observe import run_writer_reusing, site_of
        try:
            again = run_writer_reusing(ex.calls, ex.root)
        except Exception as e:
            return [('argument-reuse-raised:%s:%s' % (type(e).__name__,
                                                      site_of(e)), repr(e))]
        if again != ex.data:
            i = next((k for k, (a, b) in enumerate(zip(again, ex.data))
                      if a != b), min(len(again), len(ex.data)))
            v.append(('argument-object-reuse-changes-output',
                      'same calls with re-used argument objects (one dict '
                      'refilled per write_meta, equal strings identical): '
                      'first difference at byte %d: %r vs %r'
                      % (i, again[max(0, i - 40):i + 40],
                         ex.data[max(0, i - 40):i + 40])))
    return v


UNENCODABLE = [0xD800, 0xDBFF, 0xDC00, 0xDC7F, 0xDC80, 0xDCE9, 0xDCFF,
               0xDFFF, 0x20AC, 0x1F600, 0x0100]


def check_unencodable(cp, enc, root):
    """Text the section's codec cannot represent: either the call is
    rejected (C09 judges that) or what was written is valid text in the
    declared encoding and equals what was passed -- never other bytes."""
    import io
    from pydiffx import DiffXWriter, DiffXReader
    text = 'caf' + chr(cp) + '\nmore\n'
    st = io.BytesIO()
    try:
        w = DiffXWriter(st, encoding=root)
        w.write_preamble(text, encoding=enc, indent=2)
    except Exception:
        return []
    try:
        text.encode(enc or root)
        return []               # representable after all
    except UnicodeError:
        pass
    data = st.getvalue()
    return [('unencodable-text-written:%s' % (enc or root),
             'write_preamble(%r, encoding=%r) under main encoding %r was '
             'accepted and wrote %r' % (text, enc, root, data[-40:]))]


def run_unit(unit, tier):
    if unit[0] == 'small-texts':
        from mc.explore import Acc
        return wrgraph.run_small_text_unit(unit, tier, oracle, Acc)
    if unit[0] == 'unencodable':
        from mc.explore import Acc
        acc = Acc()
        for cp in UNENCODABLE:
            for root in ('utf-8', 'latin-1', 'ascii', 'utf-16', 'cp1252'):
                for enc in (None, 'utf-8', 'latin-1', 'ascii', 'cp1252',
                            'utf-32'):
                    viols = check_unencodable(cp, enc, root)
                    acc.evals += 1
                    acc.states += 1
                    acc.transitions += 1
                    acc.validated += 1
                    acc.nontrivial += 1
                    for key, msg in viols:
                        acc.violation(key, msg, {'kind': 'unencodable',
                                                 'cp': cp, 'enc': enc,
                                                 'root': root})
                    acc.outcome('ok' if not viols else 'violation')
        acc.sample({'unencodable_code_points': ['U+%04X' % c
                                                for c in UNENCODABLE]}, 1)
        return acc
    if unit[0] == 'scale':
        from mc.explore import Acc
        return wrgraph.wr_run_scale_unit(unit, tier, oracle, Acc)
    return wrgraph.wr_run_unit(unit, tier, oracle, False, ID)


def replay(payload):
    if payload.get('kind') == 'unencodable':
        return [{'key': k, 'msg': m} for k, m in check_unencodable(
            payload['cp'], payload['enc'], payload['root'])]
    if payload.get('kind') == 'scale':
        cfgs, variants = wrgraph.scale_units('quick')[1:]
        root, enc, le = variants[payload['variant']]
        ex = wrgraph.Exec(wrgraph.scale_calls(payload['cfg'], enc, le), root)
        return [{'key': k + ':scale', 'msg': m} for k, m in oracle(ex)]
    if payload.get('kind') != 'calls':
        return []
    ex = wrgraph.Exec(from_jsonable(payload['calls']), payload['root'])
    suf = payload.get('suffix', '')
    return [{'key': (k + suf).replace(' ', '_').replace('\n', '\\n')[:200],
             'msg': str(m)[:800] if suf else m} for k, m in oracle(ex)]
