"""C12 -- unknown header options are carried through and change nothing else."""
import glob
import itertools
import os
import re

from mc import spec
from mc.explore import Acc
from mc.observe import read_all, rec_core, typed_eq, site_of
from mc.props.c17 import base_files, _sections
from mc.spec import to_jsonable, from_jsonable


def _int_limit():
    import sys
    n = sys.get_int_max_str_digits()
    return n if n else float('inf')


ID = 'C12'
LEVEL = 'model_checking'

KEYS = ['x', 'X-y_1', 'Length', 'ENCODING', 'lengthx', 'xlength',
        'x-encoding', 'line-endings', 'Indent', 'format-x', 'versionx',
        'typ', 'mime-type', 'le', 'encodin', 'length-', 'a']
VALUES = ['v', '5', '-3', 'a/b', '1.0', 'utf-16', 'dos', '0', '-0', '007',
          'json', 'binary', '/x', '-', '9999999999999999999999', 'unix',
          'text/plain', '1_0', '2024_01_15', '-4_2', '1e5', '1.2.3', '0x10',
          'inf', 'nan', '00', '-', '--5', '5-', '1.', '.5', 'True', 'None',
          'change', '9' * 5000, 'v' * 70000,
          # path-, ref- and hash-shaped values
          '..', '../trunk', 'src/../lib', 'a/..', './a', '.', '...', 'a//b',
          '/', 'a/', 'refs/heads/main', 'HEAD', 'file.tar.gz', '0100644',
          'deadbeef', '2024-01-15', 'a..b', '__', '-/-']
VALUE_ALPHA = ['.', '/', '-', '_', 'a', '1']
KEY_ALPHA = ['a', 'Z', '1', '-', '_']
INT = re.compile(r'-?[0-9]+')

# key names real producers use (VCS vocabulary, identifiers, counters): a
# reader may not treat any of them specially
REAL_KEYS = ['commit', 'parent-commit', 'base_revision', 'revision', 'rev',
             'changeset', 'sha1', 'sha256', 'sha512', 'md5', 'hash',
             'checksum', 'digest', 'id', 'x-id', 'change_id', 'ID', 'uuid',
             'author', 'date', 'timestamp', 'path', 'mode', 'size', 'count',
             'index', 'line', 'lines', 'offset', 'position', 'number', 'num',
             'n', 'level', 'depth', 'width', 'tab-width', 'charset', 'codec',
             'newline', 'eol', 'bom', 'binary', 'text', 'compression',
             'content-length', 'content-type', 'Content-Encoding', 'lang',
             'name', 'title', 'branch', 'tag', 'ref', 'origin', 'tool',
             'generator', 'producer', 'diffx', 'meta', 'preamble', 'file',
             'change', 'diff', 'stats', 'insertions', 'deletions', 'op',
             'key', 'value', 'option', 'options', 'true', 'false', 'null',
             'none', 'self', 'class', 'type_', 'length2']
REAL_VALUES = ['1234567', '0051942', '-42', '0', 'abc123', 'v1.2']


def conv(v):
    # CPython refuses to convert more than 4300 digits: verbatim then
    return int(v) if INT.fullmatch(v) and len(v) <= _int_limit() else v


def files():
    out = [(n, d) for n, d in base_files()
           if n in ('simple', 'long-content', 'utf16', 'crlf-headers',
                    'blank-lines', 'ends-in-container')]
    # a foreign file whose headers carry as few options as the format
    # allows (content headers: length only) and whose contents mix line
    # endings (CRLF lines around a bare-LF line and vice versa, lone CRs)
    mixed = b'one\r\ntwo\nthree\r\n'
    mixed2 = b'one\ntwo\r\nthree\rfour\n'
    js = b'{"a": "x"}\n'
    out.append(('minimal-headers-mixed-endings',
                b'#diffx: version=1.0\n'
                b'#.preamble: length=%d\n%s'
                b'#.meta: length=%d\n%s'
                b'#.change:\n'
                b'#..preamble: length=%d\n%s'
                b'#..file:\n#...meta: length=%d\n%s'
                b'#...diff: length=%d\n%s'
                b'#..file:\n#...meta: length=%d\n%s'
                b'#...diff: length=%d\n%s'
                b'#.change:\n#..file:\n#...meta: length=%d\n%s'
                % (len(mixed), mixed, len(js), js, len(mixed2), mixed2,
                   len(js), js, len(mixed), mixed, len(js), js,
                   len(mixed2), mixed2, len(js), js)))
    ex = sorted(glob.glob(os.path.join(spec.REPO, 'docs', 'spec',
                                       'example-diffs', '*.diff')))
    for p in ex:
        out.append(('example:' + os.path.basename(p), open(p, 'rb').read()))
    return out


def header_spans(data):
    """[(start, end_of_options, option list)] for every header line, found
    by walking the file with its declared lengths (reference reading)."""
    spans = []
    pos = 0
    while pos < len(data):
        j = data.find(b'\n', pos)
        if j < 0:
            break
        line = data[pos:j + 1]
        if not line.strip():
            pos = j + 1
            continue
        eol = j - 1 if data[j - 1:j] == b'\r' else j
        hdr = data[pos:eol]
        ph = spec.parse_header_line(hdr)
        assert ph is not None, hdr
        sid, opts = ph
        m = re.fullmatch(rb'(#[.a-z]+:)(?: (.*))?', hdr)
        optlist = m.group(2).split(b', ') if m.group(2) else []
        spans.append((pos, eol, len(m.group(1)), optlist))
        n = opts.get('length', 0) if sid in spec.CONTENT_IDS else 0
        pos = j + 1 + n
    return spans


def insert(data, span, position, key, value):
    pos, eol, plen, optlist = span
    new = list(optlist)
    new.insert(position, ('%s=%s' % (key, value)).encode('ascii'))
    hdr = data[pos:pos + plen] + b' ' + b', '.join(new)
    return data[:pos] + hdr + data[eol:]


def check_insertions(name, data, ref, edits, rendered=None):
    """edits: list of (header index, position, key, value) applied right to
    left so earlier offsets stay valid. `rendered`: the insertions actually
    written when they differ from the ones the records are expected to
    show (duplicate keys)."""
    spans = header_spans(data)
    d2 = data
    by_header = {}
    for hi, position, key, value in (rendered or edits):
        by_header.setdefault(hi, []).append((position, key, value))
    for hi in sorted(by_header, reverse=True):
        pos, eol, plen, optlist = spans[hi]
        new = list(optlist)
        # positions refer to the original list; insert from the right
        for n, (position, key, value) in sorted(
                enumerate(by_header[hi]), key=lambda t: (-t[1][0], -t[0])):
            new.insert(position, ('%s=%s' % (key, value)).encode('ascii'))
        hdr = d2[pos:pos + plen] + b' ' + b', '.join(new)
        d2 = d2[:pos] + hdr + d2[eol:]
    recs, exc, _, _ = read_all(d2)
    v = []
    if exc is not None:
        return [('extended-file-rejected:%s:%s' % (type(exc).__name__,
                                                   site_of(exc)),
                 '%s with %r raised %r' % (name, edits, exc))]
    if len(recs) != len(ref):
        return [('record-count-changed', '%s with %r: %d records, was %d'
                 % (name, edits, len(recs), len(ref)))]
    for i, (r, o) in enumerate(zip(recs, ref)):
        exp = dict(o)
        exp['options'] = dict(o['options'])
        for hi, position, key, value in edits:
            if hi == i:
                exp['options'][key] = conv(value)
        got = rec_core(r)
        if not typed_eq(got, exp):
            what = 'touched' if any(e[0] == i for e in edits) else 'other'
            fields = sorted(k for k in set(got) | set(exp)
                            if not typed_eq(got.get(k), exp.get(k)))
            detail = ''
            if fields == ['options']:
                ks = sorted(k for k in set(got['options']) |
                            set(exp['options'])
                            if not typed_eq(got['options'].get(k, '<absent>'),
                                            exp['options'].get(k, '<absent>')))
                known = [k for k in ks if k in o['options']]
                detail = ':known-option-changed' if known else \
                    ':unknown-option-misreported'
            v.append(('%s-record-changed:%s%s' % (what, ','.join(fields),
                                                  detail),
                      '%s with %r: record %d is %r, expected %r'
                      % (name, edits, i, got, exp)))
            break
    return v


MANY_COUNTS = list(range(2, 41)) + [63, 64, 65, 100, 127, 128, 129, 255,
                                     256, 257, 1000, 5000]


def plan(tier):
    fs = files()
    units = []
    for fi, (name, data) in enumerate(fs):
        nh = len(header_spans(data))
        for hi in range(nh):
            units.append(('single', fi, hi))
            units.append(('many', fi, hi))
        units.append(('same-key', fi, 0))
        if tier == 'thorough':
            for hi in range(nh):
                units.append(('pair', fi, hi))
    units.append(('real-keys', 0, 0))
    units.append(('real-keys', 3, 0))
    for a in range(len(VALUE_ALPHA)):
        units.append(('value-strings', 0, a))
    for a in (0, 1):
        units.append(('key-strings', 0, a))
    return {
        'units': units,
        'rule': '%d well-formed files (generated: plain, long content, '
                'UTF-16/32, CRLF headers, blank lines, ends in a container; '
                'plus the 7 specification examples) x every header x %d '
                'unknown keys (incl. look-alikes of known ones: Length, '
                'ENCODING, lengthx, xlength, line-endings, ...) x %d values '
                '(plain, ints, negative, leading zeros, a/b, codec and '
                'line-ending names, path / ref / hash shapes) x every '
                'insertion position%s; every value over {. / - _ a 1} and '
                'every key over {a Z 1 - _} of length <= 4 (thorough 5) on '
                'the first and on a content header. Oracle: '
                'records of the extended file == records of the original '
                'with exactly {key: value-as-int-if-integer} added to the '
                'touched record. Non-trivial: insertion at position 0 or on '
                'a content header.'
                % (len(fs), len(KEYS), len(VALUES),
                   '; pairs of insertions (same and different headers)'
                   if tier == 'thorough' else ''),
        'bound': 'single insertions' if tier == 'quick' else
                 'single insertions and pairs',
        'exhaustive': True,
        'assumptions': ['unknown = a key the library knows nowhere'],
    }


def run_unit(unit, tier):
    acc = Acc()
    kind, fi, hi = unit
    name, data = files()[fi]
    ref_recs, exc, _, _ = read_all(data)
    if exc is not None:
        acc.violation('base-file-rejected:%s' % name, repr(exc),
                      {'kind': 'none'})
        return acc
    ref = [rec_core(r) for r in ref_recs]
    spans = header_spans(data)
    npos = len(spans[hi][3]) + 1

    def one(edits, nt):
        viols = check_insertions(name, data, ref, edits)
        acc.evals += 1
        acc.states += 1
        acc.transitions += 1
        acc.validated += 1
        if nt:
            acc.nontrivial += 1
        for key, msg in viols:
            acc.violation(key, msg, {'kind': 'edits', 'file': fi,
                                     'edits': [list(e) for e in edits]})
        acc.outcome('ok' if not viols else 'violation')

    def one_dup(edits):
        # duplicates: any one of the given values may be reported
        vs = []
        for pick in range(len(edits)):
            viols = check_insertions(name, data, ref, [edits[pick]],
                                     rendered=edits)
            vs.append(viols)
            if not viols:
                break
        viols = [] if any(not x for x in vs) else vs[0]
        acc.evals += 1
        acc.states += 1
        acc.transitions += 1
        acc.validated += 1
        acc.nontrivial += 1
        for key_, msg in viols:
            acc.violation(key_ + ':duplicate-key', msg,
                          {'kind': 'dup', 'file': fi,
                           'edits': [list(e) for e in edits]})
        acc.outcome('ok' if not viols else 'violation')

    content = 'length' in ref[hi]['options']
    if kind == 'single':
        for key in KEYS:
            for value in VALUES:
                for position in range(npos):
                    one([(hi, position, key, value)],
                        position == 0 or content)
        acc.sample({'file': name, 'header_index': hi,
                    'example': repr(insert(data, spans[hi], 0, 'Length',
                                           '-3')[spans[hi][0]:
                                                 spans[hi][1] + 12])}, 1)
    elif kind == 'value-strings':
        # every value over {. / - _ a 1} of length <= 4 (thorough 5)
        # starting with VALUE_ALPHA[hi], on the first and on a content header
        L = 4 if tier == 'quick' else 5
        hs = [0] + [h for h in range(len(spans))
                    if 'length' in ref[h]['options']][:1]
        for n in range(0, L):
            for t in itertools.product(VALUE_ALPHA, repeat=n):
                value = VALUE_ALPHA[hi] + ''.join(t)
                for h in hs:
                    one([(h, 0, 'x', value)], True)
                    one([(h, len(spans[h][3]), 'rel-path', value)], True)
        acc.sample({'values_over': VALUE_ALPHA, 'max_length': L}, 1)
    elif kind == 'key-strings':
        L = 4 if tier == 'quick' else 5
        hs = [0] + [h for h in range(len(spans))
                    if 'length' in ref[h]['options']][:1]
        for n in range(0, L):
            for t in itertools.product(KEY_ALPHA, repeat=n):
                key = KEY_ALPHA[hi] + ''.join(t)
                for h in hs:
                    one([(h, 0, key, 'v')], True)
                    one([(h, len(spans[h][3]), key, '7')], True)
        acc.sample({'keys_over': KEY_ALPHA, 'max_length': L}, 1)
    elif kind == 'real-keys':
        for key in REAL_KEYS:
            for value in REAL_VALUES:
                for h in range(len(spans)):
                    one([(h, 0, key, value)], True)
                    one([(h, len(spans[h][3]), key, value)], True)
        acc.sample({'file': name, 'realistic_keys': REAL_KEYS[:8]}, 1)
    elif kind == 'same-key':
        # the SAME unknown key on two (or three) different headers of one
        # file with values of different kinds: what one header's value looked
        # like must not influence how another's is reported
        vals = ['a3f9c1e', '4129876', '-7', 'v1.2', '007', 'utf-16']
        nh = len(spans)
        hs = list(range(nh)) if nh <= 7 else \
            [0, 1, 2, nh // 2, nh - 3, nh - 2, nh - 1]
        for key in ('x-blob', 'Length'):
            for a in hs:
                for b in hs:
                    if b <= a:
                        continue
                    for va in vals:
                        for vb in vals:
                            if va == vb:
                                continue
                            one([(a, len(spans[a][3]), key, va),
                                 (b, 0, key, vb)], True)
            # ... and twice (three times) on ONE header: the grammar does
            # not forbid it; the record carries one of the given values and
            # nothing else changes
            for a in hs:
                npos_a = len(spans[a][3])
                for va, vb in (('ci', 'ci'), ('1', '1'), ('1', '2'),
                               ('x', '7')):
                    one_dup([(a, 0, key, va), (a, npos_a, key, vb)])
                    one_dup([(a, 0, key, va), (a, 0, key, vb),
                             (a, npos_a, key, va)])
            if nh >= 3:
                for va, vb, vc in (('a3f9c1e', '12', 'x'), ('12', 'x', '13'),
                                   ('x', 'y', '14')):
                    one([(hs[0], 0, key, va), (hs[1], 0, key, vb),
                         (hs[-1], 0, key, vc)], True)
        acc.sample({'file': name, 'same_key_on_two_headers': 'x-blob'}, 1)
    elif kind == 'many':
        # N unknown options at once on one header (total option count is a
        # dimension of its own): every N up to 40 and boundary counts
        for n in MANY_COUNTS:
            for layout in ('front', 'end', 'spread'):
                edits = []
                for i in range(n):
                    key = 'k%d' % i if i % 3 else KEYS[i % len(KEYS)] + \
                        ('%d' % i if i >= len(KEYS) else '')
                    value = VALUES[i % len(VALUES)]
                    position = {'front': 0, 'end': npos - 1,
                                'spread': i % npos}[layout]
                    edits.append((hi, position, key, value))
                if len(set(e[2] for e in edits)) != n:
                    continue
                one(edits, True)
        acc.sample({'file': name, 'header_index': hi,
                    'many_counts': MANY_COUNTS}, 1)
    else:
        k2 = ['x', 'Length', 'xlength', 'line-endings']
        v2 = ['v', '-3', 'utf-16', '007']
        for h2 in range(hi, len(spans)):
            np2 = len(spans[h2][3]) + 1
            for (ka, kb) in itertools.product(k2, repeat=2):
                if h2 == hi and ka == kb:
                    continue
                for (va, vb) in itertools.product(v2, repeat=2):
                    for pa in (0, npos - 1):
                        for pb in (0, np2 - 1):
                            one([(hi, pa, ka, va), (h2, pb, kb, vb)], True)
        acc.sample({'file': name, 'pairs_from_header': hi}, 1)
    return acc


def replay(payload):
    if payload.get('kind') == 'dup':
        name, data = files()[payload['file']]
        ref_recs, exc, _, _ = read_all(data)
        ref = [rec_core(r) for r in ref_recs]
        edits = [tuple(e) for e in payload['edits']]
        vs = [check_insertions(name, data, ref, [e], rendered=edits)
              for e in edits]
        viols = [] if any(not x for x in vs) else vs[0]
        return [{'key': k + ':duplicate-key', 'msg': m} for k, m in viols]
    if payload.get('kind') != 'edits':
        return []
    name, data = files()[payload['file']]
    ref_recs, exc, _, _ = read_all(data)
    ref = [rec_core(r) for r in ref_recs]
    viols = check_insertions(name, data, ref,
                             [tuple(e) for e in payload['edits']])
    return [{'key': k, 'msg': m} for k, m in viols]
