"""C08 -- reader error contract: any bytes give records or a positioned
DiffXParseError; DOM loading raises only library errors and closes streams."""
import io
import itertools
import re
import signal

from pydiffx import DiffXReader
from pydiffx.dom import DiffX
from pydiffx.errors import BaseDiffXError, DiffXParseError

from mc import spec
from mc.explore import Acc
from mc.observe import site_of
from mc.props.c12 import header_spans
from mc.spec import to_jsonable, from_jsonable

ID = 'C08'
LEVEL = 'model_checking'


WATCHDOG_S = 5
REPLAY_WATCHDOG_S = 2     # a reported input is slow by a wide margin
MAX_TIMEOUTS_PER_UNIT = 2


class Timeout(BaseException):
    pass


class UnitAborted(BaseException):
    pass


def _alarm(signum, frame):
    raise Timeout()


class TrackedStream(io.BytesIO):
    pass


def check_bytes(data):
    """Returns (violations, outcome class)."""
    v = []
    nlines = data.count(b'\n') + data.count(b'\x25') + 1
    # --- streaming reader
    outcome = 'ok'
    try:
        recs = list(DiffXReader(io.BytesIO(data)))
    except DiffXParseError as e:
        outcome = 'parse-error'
        ln, col = getattr(e, 'linenum', None), getattr(e, 'column', None)
        if not isinstance(ln, int) or isinstance(ln, bool) or ln < 0 or \
                ln > nlines:
            v.append(('linenum-outside-input:%s' % site_of(e),
                      'linenum %r for an input of %d lines: %s'
                      % (ln, nlines, e)))
        else:
            want = 'Error on line %d' % (ln + 1)
            if col is not None:
                if not isinstance(col, int) or col < 0:
                    v.append(('column-invalid:%s' % site_of(e),
                              'column %r: %s' % (col, e)))
                want += ', column %d' % (col + 1)
            msg = str(e)
            if not msg.startswith(want + ':'):
                v.append(('message-disagrees-with-position:%s' % site_of(e),
                          'message %r, linenum %r column %r'
                          % (msg[:80], ln, col)))
    except Timeout:
        raise
    except Exception as e:
        outcome = 'other-exception'
        v.append(('reader-raised:%s:%s' % (type(e).__name__, site_of(e)),
                  '%r on input %r' % (e, _s(data))))
    # --- object model
    try:
        DiffX.from_bytes(data)
    except BaseDiffXError:
        pass
    except Timeout:
        raise
    except Exception as e:
        if outcome != 'other-exception':
            v.append(('dom-raised:%s:%s' % (type(e).__name__, site_of(e)),
                      'DiffX.from_bytes: %r on input %r' % (e, _s(data))))
    s = io.BytesIO(data)
    try:
        DiffX.from_stream(s)
    except Exception:
        pass
    if not s.closed:
        v.append(('stream-left-open:%s' % outcome,
                  'DiffX.from_stream left the stream open (%s)' % outcome))
    return v, outcome


def _s(b):
    r = repr(b)
    return r if len(r) < 300 else r[:150] + '...' + r[-140:]


# ------------------------------------------------------------- base files

def base_files(tier):
    M = ['meta', {'path': 'f', 'n': [1, None]}, None]
    P = ['preamble', 'one\ntwo\n', None, 4, None, None]
    D = ['diff', b'@@ -1 +1 @@\n-x\n+y\n', None, None, None]
    out = []
    b, _ = spec.serialize([P, M, ['change', None], P, M, ['file', None], M,
                           D], 'utf-8')
    out.append(('small', b))
    b, _ = spec.serialize([['change', 'utf-16'],
                           ['preamble', 'é\r\nb\r\n', None, 2, 'dos',
                            'text/markdown'],
                           ['file', None], M,
                           ['diff', 'a\n'.encode('utf-32'), 'text',
                            'utf-32', 'unix']], 'latin-1')
    out.append(('encodings', b))
    b, _ = spec.serialize([['change', None], ['file', None], M,
                           ['file', None], M, D, ['change', None],
                           ['file', None], M], 'utf-8')
    out.append(('containers', b))
    # a file without a main encoding (content stays bytes)
    out.append(('no-encoding', b'#diffx: version=1.0\n#.preamble: length=4\n'
                b'abc\n#.change:\n#..file:\n#...meta: length=11\n'
                b'{"a": "x"}\n#...diff: length=2\na\n'))
    out.append(('crlf-headers', b'#diffx: encoding=utf-8, version=1.0\r\n'
                b'#.change:\r\n#..file:\r\n#...meta: format=json, length=11'
                b'\r\n{"a": "x"}\n#...diff: length=2, line_endings=unix\r\n'
                b'a\n'))
    # characters str.splitlines() breaks on, in un-indented text and raw in
    # compact JSON (the line count of the input is the number of newline
    # sequences, nothing else)
    sp = 'a\u2028b\u2029c\x85d\x0ce\x0bf\x1cg\x1dh\x1ei\rj\n'
    js = ('{"k": "%s"}' % sp[:-3].replace('\x0c', '').replace(
        '\x0b', '').replace('\x1c', '').replace('\x1d', '').replace(
            '\x1e', '').replace('\x85', '')).encode('utf-8') + b'\n'
    pb = sp.encode('utf-8')
    out.append(('line-break-chars', b'#diffx: encoding=utf-8, version=1.0\n'
                b'#.change:\n#..preamble: length=%d\n%s'
                b'#..meta: format=json, length=%d\n%s'
                b'#..file:\n#...meta: format=json, length=%d\n%s'
                b'#...diff: length=%d\n%s'
                % (len(pb), pb, len(js), js, len(js), js, len(pb), pb)))
    # what the writer emits for preamble='\n' / '\n\n' (an empty commit
    # message): indentation and nothing else
    out.append(('blank-preambles', b'#diffx: encoding=utf-8, version=1.0\n'
                b'#.preamble: indent=4, length=5, line_endings=unix\n    \n'
                b'#.change:\n'
                b'#..preamble: indent=2, length=6, line_endings=unix\n'
                b'  \n \n\n'
                b'#..file:\n#...meta: format=json, length=11\n{"a": "x"}\n'))
    if tier == 'thorough':
        from mc.props.c07 import extra_files
        out += extra_files()[:2]
    return out


BYTES = [b'\n', b'\r', b'#', b'.', b':', b'=', b',', b' ', b'\x00', b'\xff',
         b'0', b'9', b'a', b'-']

HOSTILE = {
    'length': ['abc', '-1', '0', '1.5', '1_0', '99999999999999999999',
               '007', '-0', 'a/b', '1', '3'],
    'indent': ['abc', '-1', '99999999999', '1.5', '0', '1_0',
               '99999999999999999999', '3'],
    'encoding': ['bogus', '123', 'ascii', 'utf-16', 'utf-8x', 'idna',
                 'rot13', 'hex', 'zlib', 'undefined', 'utf-7', 'base64',
                 'unicode_escape', 'punycode', 'mbcs', 'utf-32', '5',
                 'utf-8-sig', 'latin-1', 'cp037', 'raw_unicode_escape',
                 'bz2', 'quopri', 'uu', 'oem'],
    'line_endings': ['mac', '5', 'DOS', 'unix', 'dos', 'a/b'],
    'format': ['yaml', '5', 'JSON', 'xml'],
    'version': ['2.0', '1', '1.0.1', '10', 'abc'],
    'mimetype': ['text/html', '5', 'x'],
    'type': ['patch', '5', 'binary', 'text'],
}


def token_corruptions(data):
    """Every single replacement / drop / duplication / addition of a
    hostile option value on every header."""
    out = []
    for hi, (pos, eol, plen, optlist) in enumerate(header_spans(data)):
        keys = [o.split(b'=')[0].decode() for o in optlist]
        for oi, o in enumerate(optlist):
            k = keys[oi]
            for val in HOSTILE.get(k, ['zz', '5', '-5']):
                new = list(optlist)
                new[oi] = ('%s=%s' % (k, val)).encode()
                out.append(('set:%s=%s' % (k, val), hi, new))
            new = optlist[:oi] + optlist[oi + 1:]
            out.append(('drop:%s' % k, hi, new))
            out.append(('dup:%s' % k, hi, optlist + [o]))
        for k, vals in HOSTILE.items():
            if k not in keys:
                for val in vals:
                    out.append(('add:%s=%s' % (k, val), hi,
                                optlist + [('%s=%s' % (k, val)).encode()]))
    return out


def apply_tokens(data, hi, new):
    pos, eol, plen, optlist = header_spans(data)[hi]
    hdr = data[pos:pos + plen] + ((b' ' + b', '.join(new)) if new else b'')
    return data[:pos] + hdr + data[eol:]


def line_corruptions(data):
    lines = data.split(b'\n')
    out = []
    for i in range(len(lines) - 1):
        out.append(('delete-line', b'\n'.join(lines[:i] + lines[i + 1:])))
        out.append(('dup-line', b'\n'.join(lines[:i + 1] + lines[i:])))
        if i + 2 < len(lines):
            sw = lines[:i] + [lines[i + 1], lines[i]] + lines[i + 2:]
            out.append(('swap-lines', b'\n'.join(sw)))
        if lines[i].endswith(b'\r'):
            out.append(('crlf-to-lf', b'\n'.join(lines[:i] + [lines[i][:-1]]
                                                 + lines[i + 1:])))
        else:
            out.append(('lf-to-crlf', b'\n'.join(lines[:i] + [lines[i] +
                                                              b'\r'] +
                                                 lines[i + 1:])))
        out.append(('blank-before', b'\n'.join(lines[:i] + [b''] +
                                               lines[i:])))
    return out


HDR_TOKENS = [b'#diffx:', b'#.change:', b'#..file:', b'#...meta:',
              b'#...diff:', b'#.preamble:', b' version=1.0', b' length=2',
              b' length=0', b' encoding=utf-16', b' indent=4', b'\n',
              b'\r\n', b'a\n', b'{}\n', b', ']
RAW = [b'#', b'.', b'd', b':', b' ', b'=', b'\n', b'\r', b'\xff', b'1']


SCALE_SIZES = [95, 96, 97, 191, 192, 193, 1000, 4095, 4096, 4097, 8192,
               65535, 65536, 65537, 1000000]
SCALE_DEPTHS = [10, 100, 500, 990, 1000, 1010, 5000, 100000]


def scale_inputs(tier):
    """Boundary sizes of everything that can be long, deep or numerous in a
    file: lines without a newline, header lines, option values, runs of
    blank lines, content lines, JSON nesting, section counts."""
    H = b'#diffx: encoding=utf-8, version=1.0\n'
    out = []
    for n in SCALE_SIZES:
        x = b'x' * n
        out.append(('long-first-line', x))
        out.append(('long-first-line-nl', x + b'\n'))
        out.append(('long-header-value', b'#diffx: encoding=utf-8, '
                    b'version=1.0, z=' + b'a' * n + b'\n#.change:\n'))
        out.append(('long-version', b'#diffx: encoding=utf-8, version=' + x))
        out.append(('long-version-nl', b'#diffx: encoding=utf-8, version=' +
                    x + b'\n'))
        out.append(('long-second-line', H + x))
        nine = b'9' * n
        out.append(('long-int-option', b'#diffx: encoding=utf-8, '
                    b'version=1.0, z=' + nine + b'\n#.change:\n'))
        out.append(('long-length', H + b'#.preamble: length=' + nine +
                    b'\nabc\n'))
        out.append(('long-negative-length', H + b'#.preamble: length=-' +
                    nine + b'\nabc\n'))
        out.append(('long-indent', H + b'#.preamble: indent=' + nine +
                    b', length=4\nabc\n'))
        out.append(('long-second-header', H + b'#.change: z=' + x + b'\n'))
        out.append(('long-content-line', H + b'#.preamble: length=%d\n'
                    % (n + 1) + x + b'\n'))
        out.append(('long-content-no-nl', H + b'#.preamble: length=%d\n'
                    % n + x))
        out.append(('long-meta-string', H + b'#.meta: length=%d\n'
                    % (n + 8) + b'{"a":"' + x + b'"}\n'))
        if n <= 100000:
            out.append(('blank-lines', b'\n' * n + H + b'#.change:\n'))
            out.append(('blank-lines-between', H + b' \n' * n +
                        b'#.change:\n'))
            out.append(('many-options', b'#diffx: version=1.0, ' + b', '.join(
                b'k%d=v' % i for i in range(n // 8 + 1)) + b'\n'))
        if n <= 10000:
            out.append(('many-changes', H + b'#.change:\n#..file:\n'
                        b'#...meta: length=3\n{}\n' * n))
    # near-miss tokens: a long run of valid characters with one invalid
    # character at the end / start / middle (regular expressions with nested
    # quantifiers backtrack exponentially on these)
    for n in (5000, 200, 64, 40, 32, 28, 24, 16):     # clearest first
        run = (b'a1B2c3D4' * (n // 8 + 1))[:n]
        for bad in (b'+', b':', b'~', b'@', b'!', b'%', b'\xff', b' ', b'='):
            for tok in (run + bad, bad + run, run[:n // 2] + bad +
                        run[n // 2:]):
                out.append(('near-miss-value', H + b'#.change: id=' + tok +
                            b'\n'))
                out.append(('near-miss-key', H + b'#.change: ' + tok +
                            b'=v\n'))
                out.append(('near-miss-second', H + b'#.change: a=b, id=' +
                            tok + b', c=d\n'))
        out.append(('near-miss-name', b'#' + b'd' * n + b': version=1.0\n'))
        out.append(('near-miss-dots', b'#' + b'.' * n + b'meta: length=1\n'))
        out.append(('near-miss-json', H + b'#.meta: length=%d\n' % (n + 10)
                    + b'{"a": "' + b'\\' * n + b'"}\n'))
    for d in SCALE_DEPTHS:
        for o, c in ((b'[', b']'), (b'{"a":', b'}')):
            body = o * d + (b'1' if o != b'[' else b'') + c * d + b'\n'
            out.append(('deep-json', H + b'#.meta: format=json, length=%d\n'
                        % len(body) + body))
            out.append(('deep-json-unclosed', H +
                        b'#.meta: format=json, length=%d\n' % (len(o) * d + 1)
                        + o * d + b'\n'))
    return out


# JSON texts a metadata section may hold: every object of <= 3 pairs over
# two keys (so keys repeat) and these values, at the top level, nested under
# a key and nested inside a list; plus non-object documents
JSON_ATOMS = [b'1', b'"x"', b'null', b'true', b'1.5', b'[]', b'{}', b'[1]',
              b'{"a":1}', b'{"a":"x"}', b'-0', b'1e999', b'NaN',
              b'"\\ud800"', b'"\\u0000"']
JSON_DOCS = [b'[]', b'[1,"x"]', b'"x"', b'1', b'null', b'true', b'1.5',
             b'NaN', b'-Infinity', b'', b' ', b'{} {}', b'{}x',
             b'\xef\xbb\xbf{}', b'{"a":' + b'9' * 5000 + b'}',
             b'{"a":1e' + b'9' * 5000 + b'}', b'{"\\ud800":1}',
             b'{"a":"\xff"}', b'{"a":"\x01"}', b'{"a":1,}', b"{'a':1}",
             b'{a:1}', b'{"a":1 /* c */}', b'{"a":01}', b'{"a":+1}',
             b'{"a":.5}', b'{"a":"\\x"}', b'{"a":"\n"}', b'[[[[[[',
             b'{"":{"":{"":1}}}', b'{"a":1}\x00']
JSON_WHERE = ['.meta', '..meta', '...meta']


def json_objects():
    out = []
    keys = [b'"a"', b'"b"']
    for n in range(0, 4):
        for ks in itertools.product(keys, repeat=n):
            if n == 3 and len(set(ks)) == 2 and ks[0] != ks[2] and \
                    ks[0] != ks[1] and ks[1] != ks[2]:
                continue
            for vs in itertools.product(JSON_ATOMS[:10] if n == 3
                                        else JSON_ATOMS, repeat=n):
                if n == 3 and ks[0] == ks[1] == ks[2] and \
                        len(set(vs)) < 2:
                    continue
                out.append((n, b'{' + b','.join(k + b':' + v for k, v
                                                in zip(ks, vs)) + b'}'))
    return out


def json_file(body, where, wrap):
    if wrap == 'key':
        body = b'{"k":' + body + b'}'
    elif wrap == 'list':
        body = b'{"k":[1,' + body + b']}'
    body += b'\n'
    hdr = b'#' + where.encode() + b': format=json, length=%d\n' % len(body)
    parts = [b'#diffx: encoding=utf-8, version=1.0\n']
    if where == '.meta':
        parts += [hdr, body, b'#.change:\n#..file:\n#...meta: length=3\n'
                  b'{}\n']
    elif where == '..meta':
        parts += [b'#.change:\n', hdr, body, b'#..file:\n#...meta: '
                  b'length=3\n{}\n']
    else:
        parts += [b'#.change:\n#..file:\n', hdr, body,
                  b'#...diff: length=2\na\n']
    return b''.join(parts)


def plan(tier):
    fs = base_files(tier)
    units = []
    for fi, (name, data) in enumerate(fs):
        step = 30 if tier == 'quick' else 20
        for lo in range(0, len(data) + 1, step):
            units.append(('bytes', fi, lo, min(lo + step, len(data) + 1)))
        units.append(('tokens', fi))
        units.append(('lines', fi))
        if tier == 'thorough':
            toks = token_corruptions(data)
            for lo in range(0, len(toks), 12):
                units.append(('token-pairs', fi, lo, min(lo + 12,
                                                         len(toks))))
    nsc = len(scale_inputs(tier))
    for lo in range(0, nsc, 8):
        units.append(('scale', lo, min(lo + 8, nsc)))
    L = 5 if tier == 'quick' else 6
    for a in range(len(HDR_TOKENS)):
        units.append(('hdr-strings', a, L))
    units.append(('stream-kinds',))
    units.append(('attr-options',))
    nj = len(json_objects())
    for lo in range(0, nj, 1500):
        units.append(('json-bodies', lo, min(lo + 1500, nj)))
    units.append(('json-docs',))
    R = 6 if tier == 'quick' else 7
    for a in range(len(RAW)):
        for b in range(len(RAW)):
            units.append(('raw-strings', a, b, R))
    return {
        'units': units,
        'rule': '%d well-formed base files; every single corruption at byte '
                'level (each offset x {delete, insert or replace with one '
                'of %d bytes}), token level (every option of every header '
                'set to each value of a hostile catalogue, dropped, '
                'duplicated, added), line level (delete / duplicate / swap '
                '/ flip newline style / blank line before)%s; plus every '
                'string of <= %d tokens over a %d-token header alphabet and '
                'every byte string of length <= %d over %r; plus a scale pass: '
                'boundary sizes (95..97, 191..193, 1000, 4095..4097, 65535..'
                '65537, 10^6) of first lines, header lines, option values, '
                'blank-line runs, content lines, JSON strings, section '
                'counts, and JSON nesting depths 10..100000; plus %d '
                'metadata JSON objects (every object of <= 3 pairs over two '
                'keys -- so keys repeat -- and 15 values of every JSON type '
                'incl. -0, 1e999, NaN, lone-surrogate escapes) at the top '
                'level / under a key / inside a list of a main, change or '
                'file metadata section, and %d non-object or near-JSON '
                'documents. Each input is '
                'read by the real DiffXReader and loaded by DiffX.from_bytes '
                '/ from_stream under a watchdog. Non-trivial: corrupted '
                'file that gets past the main header.'
                % (len(fs), len(BYTES),
                   '; every pair of token corruptions' if tier == 'thorough'
                   else '', L, len(HDR_TOKENS), R, b''.join(RAW),
                   len(json_objects()), len(JSON_DOCS)),
        'bound': 'single corruptions%s; strings <= %d/%d'
                 % (' and token pairs' if tier == 'thorough' else '', L, R),
        'exhaustive': True,
        'assumptions': ['"line number lies within the input": 0 <= linenum '
                        '<= (number of 0x0A and 0x25 bytes) + 1 (0x25 is the '
                        'EBCDIC newline a declared codec may select)'],
    }



def OPT_UNITS(tier):
    """Units repeated in an interpreter started with -O (validation must
    not live in assert statements or __debug__ blocks)."""
    us = plan(tier)['units']
    keep = []
    for kind, n in [('tokens', 6), ('lines', 2), ('hdr-strings', 4), ('bytes', 6), ('scale', 6)]:
        keep += [u for u in us if str(u[0]) == kind][:n]
    return keep


STREAM_KINDS = ['bytesio', 'buffered', 'file', 'gzip', 'bz2', 'lzma',
                'duck', 'bytesio-subclass']


class _Duck(object):
    """Not an io class at all: just the methods the loader uses."""
    def __init__(self, data):
        self._s = io.BytesIO(data)
        self.closed = False

    def read(self, *a):
        return self._s.read(*a)

    def seek(self, *a):
        return self._s.seek(*a)

    def tell(self):
        return self._s.tell()

    def close(self):
        self.closed = True
        self._s.close()

    def __enter__(self):
        return self

    def __exit__(self, *a):
        self.close()


def open_kind(data, kind):
    import bz2
    import gzip
    import lzma
    import tempfile
    if kind == 'bytesio':
        return io.BytesIO(data)
    if kind == 'bytesio-subclass':
        return TrackedStream(data)
    if kind == 'buffered':
        return io.BufferedReader(io.BytesIO(data), buffer_size=32)
    if kind == 'file':
        f = tempfile.TemporaryFile()
        f.write(data)
        f.seek(0)
        return f
    if kind == 'gzip':
        return gzip.GzipFile(fileobj=io.BytesIO(gzip.compress(data)))
    if kind == 'bz2':
        return bz2.BZ2File(io.BytesIO(bz2.compress(data)))
    if kind == 'lzma':
        return lzma.LZMAFile(io.BytesIO(lzma.compress(data)))
    return _Duck(data)


def check_stream_kind(data, kind):
    """from_stream(stream of this kind): same outcome as from_bytes, and
    the stream the caller handed over is closed afterwards."""
    from mc.domsnap import fsnap
    try:
        want = ('tree', fsnap(DiffX.from_bytes(data)))
    except BaseDiffXError as e:
        want = ('error', type(e).__name__)
    except Exception as e:
        want = ('other', type(e).__name__)
    st = open_kind(data, kind)
    try:
        got = ('tree', fsnap(DiffX.from_stream(st)))
    except BaseDiffXError as e:
        got = ('error', type(e).__name__)
    except Exception as e:
        got = ('other', '%s:%s' % (type(e).__name__, site_of(e)))
    v = []
    if got != want and want[0] != 'other':
        v.append(('from-stream-differs-from-from-bytes:%s' % kind,
                  '%s stream: %r, from_bytes: %r' % (kind, got[:1] + (
                      str(got[1])[:80],), want[:1] + (str(want[1])[:80],))))
    if not st.closed:
        v.append(('stream-left-open:%s:%s' % (kind, got[0]),
                  'DiffX.from_stream left the %s stream open (%s)'
                  % (kind, got[0])))
        try:
            st.close()
        except Exception:
            pass
    return v


def attribute_names():
    """Every attribute name of the object-model section classes (computed
    from the classes): a header option called like one of them is an
    option, not an attribute."""
    from pydiffx.dom import objects
    names = set()
    for cname in dir(objects):
        c = getattr(objects, cname)
        if isinstance(c, type) and issubclass(c, objects.BaseDiffXSection):
            for k in c.__mro__:
                names |= set(vars(k))
                names |= set(getattr(k, '__slots__', ()))
    names |= {'self', 'cls', 'parent_section', 'attrs', 'kwargs'}
    ok = re.compile(r'[A-Za-z][A-Za-z0-9_-]*$')
    return sorted(n for n in names if ok.match(n))


def check_attr_option(name, value, where):
    """A well-formed file with one extra option on a container header: the
    loader returns a sane tree or raises one of the library's errors."""
    from mc.domsnap import fsnap
    hdr = {'diffx': b'#diffx: encoding=utf-8, version=1.0',
           'change': b'#.change:', 'file': b'#..file:'}[where]
    data = (b'#diffx: encoding=utf-8, version=1.0\n'
            b'#.preamble: indent=2, length=4\n  p\n'
            b'#.change:\n#..preamble: length=2\nc\n'
            b'#..file:\n#...meta: format=json, length=11\n{"a": "x"}\n'
            b'#...diff: length=2\na\n')
    opt = ('%s=%s' % (name, value)).encode('ascii')
    new = hdr + (b', ' if b' ' in hdr else b' ') + opt
    data = data.replace(hdr, new, 1)
    try:
        t = DiffX.from_bytes(data)
    except BaseDiffXError:
        return []
    except Exception as e:
        return [('dom-raised:%s:%s:attribute-named-option'
                 % (type(e).__name__, site_of(e)),
                 'header %r: %r' % (new, e))]
    v = []
    try:
        s1 = fsnap(t)
        nch = len(t.changes)
        nf = [len(c.files) for c in t.changes]
        texts = (t.preamble, [c.preamble for c in t.changes])
    except Exception as e:
        return [('dom-tree-corrupt:attribute-named-option',
                 'header %r loaded, but the tree cannot be walked: %r'
                 % (new, e))]
    if nch != 1 or nf != [1] or texts != ('p\n', ['c\n']):
        v.append(('dom-tree-altered-by-option:%s' % where,
                  'header %r changed the tree: %d changes, files %r, '
                  'preambles %r' % (new, nch, nf, texts)))
    return v


def kind_inputs(tier):
    out = []
    for name, data in base_files(tier):
        out.append((name, data))
        out.append((name + ':cut', data[:len(data) * 2 // 3]))
        out.append((name + ':badheader', data.replace(b'#.change:',
                                                      b'#.chnge:', 1)))
        out.append((name + ':badlength', data.replace(b'length=',
                                                      b'length=9', 1)))
    out.append(('empty', b''))
    out.append(('garbage', b'\x00\xff garbage\n'))
    return out


def run_unit(unit, tier):
    acc = Acc()
    signal.signal(signal.SIGALRM, _alarm)
    if unit[0] == 'attr-options':
        names = attribute_names()
        for name in names:
            for value in ('x', '3', 'utf-8'):
                for where in ('diffx', 'change', 'file'):
                    viols = check_attr_option(name, value, where)
                    acc.evals += 1
                    acc.states += 1
                    acc.transitions += 1
                    acc.validated += 1
                    acc.nontrivial += 1
                    for key, msg in viols:
                        acc.violation(key, msg, {'kind': 'attr-option',
                                                 'name': name,
                                                 'value': value,
                                                 'where': where})
                    acc.outcome('ok' if not viols else 'violation')
        acc.sample({'attribute_named_options': names[:12],
                    'count': len(names)}, 1)
        return acc
    if unit[0] == 'stream-kinds':
        for name, data in kind_inputs(tier):
            for kind in STREAM_KINDS:
                viols = check_stream_kind(data, kind)
                acc.evals += 1
                acc.states += 1
                acc.transitions += 2
                acc.validated += 1
                acc.nontrivial += 1
                for key, msg in viols:
                    acc.violation(key, '%s (input %s)' % (msg, name),
                                  {'kind': 'stream-kind',
                                   'data': to_jsonable(data),
                                   'stream': kind})
                acc.outcome('ok' if not viols else 'violation')
        acc.sample({'stream_kinds': STREAM_KINDS}, 1)
        return acc

    def one(data, payload, label=''):
        signal.setitimer(signal.ITIMER_REAL, WATCHDOG_S)
        try:
            viols, outcome = check_bytes(data)
        except Timeout:
            viols, outcome = [('does-not-terminate', 'no result within %d '
                               's on input %s' % (WATCHDOG_S, _s(data)))], \
                'timeout'
            timeouts[0] += 1
        finally:
            signal.setitimer(signal.ITIMER_REAL, 0)
        acc.evals += 1
        acc.states += 1
        acc.transitions += 3
        acc.validated += 1
        if data.startswith(b'#diffx:') and b'version=1.0' in data[:60]:
            acc.nontrivial += 1
        for key, msg in viols:
            acc.violation(key, '%s\n%s' % (msg, label), payload)
        acc.outcome(outcome)
        if timeouts[0] >= MAX_TIMEOUTS_PER_UNIT:
            # every further hanging input would cost another watchdog
            # period: stop this unit, the violation is already recorded
            acc.cap_hit = True
            raise UnitAborted()

    timeouts = [0]
    try:
        _run_unit_body(unit, tier, acc, one)
    except UnitAborted:
        pass
    return acc


def _run_unit_body(unit, tier, acc, one):
    fs = base_files(tier)
    if unit[0] == 'bytes':
        _, fi, lo, hi = unit
        name, data = fs[fi]
        for off in range(lo, hi):
            cands = []
            if off < len(data):
                cands.append(('del', data[:off] + data[off + 1:]))
            for b in BYTES:
                cands.append(('ins', data[:off] + b + data[off:]))
                if off < len(data) and data[off:off + 1] != b:
                    cands.append(('rep', data[:off] + b + data[off + 1:]))
            for op, d2 in cands:
                one(d2, {'kind': 'data', 'data': to_jsonable(d2)},
                    'file %s, %s at offset %d' % (name, op, off))
        acc.sample({'file': name, 'offsets': [lo, hi - 1],
                    'ops': 'delete / insert / replace x %d bytes'
                    % len(BYTES)}, 1)
    elif unit[0] == 'tokens':
        name, data = fs[unit[1]]
        for label, hi, new in token_corruptions(data):
            d2 = apply_tokens(data, hi, new)
            one(d2, {'kind': 'data', 'data': to_jsonable(d2)},
                'file %s header %d %s' % (name, hi, label))
        acc.sample({'file': name, 'token_corruptions':
                    len(token_corruptions(data))}, 1)
    elif unit[0] == 'token-pairs':
        _, fi, lo, hi_ = unit
        name, data = fs[fi]
        toks = token_corruptions(data)
        for a in range(lo, hi_):
            la, ha, na = toks[a]
            for b in range(a + 1, len(toks)):
                lb, hb, nb = toks[b]
                if ha == hb:
                    continue
                # later header first, with the spans of the ORIGINAL file,
                # so the earlier header's offsets stay valid
                spans = header_spans(data)
                d2 = data
                for hx, nx in sorted([(ha, na), (hb, nb)], reverse=True):
                    pos, eol, plen, optlist = spans[hx]
                    hdr = d2[pos:pos + plen] + ((b' ' + b', '.join(nx))
                                                if nx else b'')
                    d2 = d2[:pos] + hdr + d2[eol:]
                one(d2, {'kind': 'data', 'data': to_jsonable(d2)},
                    'file %s %s@%d + %s@%d' % (name, la, ha, lb, hb))
    elif unit[0] == 'scale':
        sc = scale_inputs(tier)[unit[1]:unit[2]]
        for label, d2 in sc:
            one(d2, {'kind': 'scale', 'index': unit[1] + sc.index((label,
                                                                    d2)),
                     'label': label, 'size': len(d2)},
                'scale input %s, %d bytes' % (label, len(d2)))
        acc.sample({'scale_inputs': sorted(set(l for l, d in sc))}, 1)
    elif unit[0] == 'json-bodies':
        objs = json_objects()[unit[1]:unit[2]]
        for i, (npairs, body) in enumerate(objs):
            # the placement rotates so that every body is seen somewhere and
            # short ones (<= 2 pairs) everywhere
            combos = [(w, x) for w in JSON_WHERE
                      for x in ('top', 'key', 'list')]
            if npairs > 2:
                combos = [combos[(unit[1] + i) % len(combos)]]
            for where, wrap in combos:
                d2 = json_file(body, where, wrap)
                one(d2, {'kind': 'data', 'data': to_jsonable(d2)},
                    'metadata JSON %r in %s (%s)' % (body, where, wrap))
        acc.sample({'json_bodies': [repr(b) for n, b in objs[:3]],
                    'count': len(objs)}, 1)
    elif unit[0] == 'json-docs':
        for body in JSON_DOCS:
            for where in JSON_WHERE:
                for wrap in ('top', 'key', 'list'):
                    d2 = json_file(body, where, wrap)
                    one(d2, {'kind': 'data', 'data': to_jsonable(d2)},
                        'metadata document %s in %s (%s)'
                        % (_s(body), where, wrap))
        acc.sample({'json_documents': len(JSON_DOCS)}, 1)
    elif unit[0] == 'lines':
        name, data = fs[unit[1]]
        for label, d2 in line_corruptions(data):
            one(d2, {'kind': 'data', 'data': to_jsonable(d2)},
                'file %s %s' % (name, label))
    elif unit[0] == 'hdr-strings':
        _, a, L = unit
        for n in range(0, L):
            for t in itertools.product(HDR_TOKENS, repeat=n):
                d2 = HDR_TOKENS[a] + b''.join(t)
                one(d2, {'kind': 'data', 'data': to_jsonable(d2)})
        if a == 0:
            one(b'', {'kind': 'data', 'data': to_jsonable(b'')})
        acc.sample({'header_token_strings_starting_with':
                    repr(HDR_TOKENS[a])}, 1)
    else:
        _, a, b, R = unit
        pre = RAW[a] + RAW[b]
        for n in range(0, R - 1):
            for t in itertools.product(RAW, repeat=n):
                d2 = pre + b''.join(t)
                one(d2, {'kind': 'data', 'data': to_jsonable(d2)})
        if a == 0 and b == 0:
            for x in RAW:
                one(x, {'kind': 'data', 'data': to_jsonable(x)})


def replay(payload):
    if payload.get('kind') == 'attr-option':
        return [{'key': k, 'msg': m} for k, m in check_attr_option(
            payload['name'], payload['value'], payload['where'])]
    if payload.get('kind') == 'stream-kind':
        return [{'key': k, 'msg': m} for k, m in check_stream_kind(
            from_jsonable(payload['data']), payload['stream'])]
    if payload.get('kind') == 'scale':
        label, data = scale_inputs('quick')[payload['index']]
    elif payload.get('kind') != 'data':
        return []
    else:
        data = from_jsonable(payload['data'])
    signal.signal(signal.SIGALRM, _alarm)
    signal.setitimer(signal.ITIMER_REAL, REPLAY_WATCHDOG_S)
    try:
        viols, outcome = check_bytes(data)
    except Timeout:
        viols = [('does-not-terminate', 'no result within %d s'
                  % REPLAY_WATCHDOG_S)]
    finally:
        signal.setitimer(signal.ITIMER_REAL, 0)
    return [{'key': k, 'msg': m} for k, m in viols]
