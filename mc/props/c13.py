"""C13 -- generated statistics: exact, additive, idempotent, non-destructive."""
import copy
import itertools
import logging

from pydiffx.dom import DiffX

from mc.domsnap import snap
from mc.explore import Acc, freeze, deviations
from mc.spec import to_jsonable, from_jsonable

ID = 'C13'
LEVEL = 'model_checking'

logging.disable(logging.CRITICAL)

MARK = '\\ No newline at end of file'


def hunk_lines(body, so=1, sn=1, payload='x'):
    no = sum(1 for t in body if t in 'CD')
    nn = sum(1 for t in body if t in 'CI')
    out = ['@@ -%d,%d +%d,%d @@' % (so, no, sn, nn)]
    for t in body:
        if t == 'M':
            out.append(MARK)
        else:
            out.append({'C': ' ', 'D': '-', 'I': '+'}[t] + payload)
    return out


def counts(body):
    return body.count('I'), body.count('D')


def diff_variants():
    """(name, text lines, insertions, deletions, analysed)"""
    V = []

    def add(name, lines, i, d, analysed=True):
        V.append((name, lines, i, d, analysed))

    add('DI', hunk_lines('DI'), 1, 1)
    for body in ['D', 'I', 'C', 'CDIC', 'DDDI', 'III', 'DMIM', 'CMC',
                 'CCCDCCC', 'IDID']:
        i, d = counts(body)
        add('one:' + body, hunk_lines(body), i, d)
    add('payload-lookalike', hunk_lines('DI', payload='-- a/f') +
        hunk_lines('DI', 9, 9, payload='++ b/f'), 2, 2)
    add('payload-hunkheader', hunk_lines('DIC', payload='@@ -1 +1 @@'), 1, 1)
    for sep_name, sep in [('none', []), ('fileheaders', ['--- a', '+++ b']),
                          ('git', ['diff --git a/f b/f', 'index 1..2']),
                          ('plusjunk', ['+junk', '-junk', ' ctx']),
                          ('atjunk', ['@@ junk']), ('blank', ['']),
                          ('marker', [MARK])]:
        add('two:' + sep_name, hunk_lines('DI') + sep +
            hunk_lines('IID', 20, 20), 3, 2)
    add('headers-first', ['diff --git a/f b/f', '--- a/f', '+++ b/f'] +
        hunk_lines('DDI'), 1, 2)
    add('trailing-junk', hunk_lines('DI') + ['+not counted', '-- ', MARK,
                                            '--- x'], 1, 1)
    add('no-hunks', ['Binary files a and b differ', '+x', '-y'], 0, 0)
    add('three', hunk_lines('D') + hunk_lines('I', 5, 5) +
        hunk_lines('CDC', 9, 9), 1, 2)
    # text after the closing "@@" (git puts the enclosing function there):
    # anything, including "@@" itself
    for ci, ctx in enumerate(['@@', 'x @@ y', '[@@deriving show]',
                              'IF @@ERROR <> 0', '@@ -9 +9 @@', '-- a',
                              '+++ b', ' ', 'def f(self):  # @@', '@', '@@@']):
        add('context:%d' % ci,
            ['@@ -1,2 +1,2 @@ ' + ctx, ' c', '-a', '+b',
             '@@ -7 +7,2 @@ ' + ctx, '-d', '+e', '+f'], 3, 2)
    # hunks whose last (first, only) context line is empty or blank: the
    # line is the single space / space + blanks, nothing to trim
    add('blank-context-last', ['@@ -1,2 +1,2 @@', '-a', '+b', ' '], 1, 1)
    add('blank-context-first', ['@@ -1,2 +1,2 @@', ' ', '-a', '+b'], 1, 1)
    add('blank-context-runs', ['@@ -1,4 +1,5 @@', ' ', ' ', '-a', '+b', '+c',
                               ' ', ' '], 2, 1)
    add('whitespace-context-last', ['@@ -1,3 +1,3 @@', ' c', '-a', '+b',
                                    '   ', '@@ -9,2 +9,2 @@', '-d', '+e',
                                    ' \t'], 2, 2)
    add('blank-payloads', ['@@ -1,2 +1,2 @@', '-', '-  ', '+', '+\t'], 2, 2)
    add('zero-sides', ['@@ -0,0 +1,2 @@', '+a', '+b', '@@ -5,2 +6,0 @@',
                       '-c', '-d'], 2, 2)
    add('omitted-counts', ['@@ -1 +1 @@', '-a', '+b'], 1, 1)
    # a count given on one side only (git: new one-line file, -U0 one-line
    # insert / delete, two lines joined, one line split)
    add('omitted-new-zero-old', ['@@ -0,0 +1 @@', '+x'], 1, 0)
    add('omitted-new-u0', ['@@ -3,0 +4 @@', '+x', '@@ -9 +10,0 @@', '-y'],
        1, 1)
    add('omitted-new-two-old', ['@@ -1,2 +1 @@', '-a', '-b', '+ab'], 1, 2)
    add('omitted-old-two-new', ['@@ -1 +1,2 @@', '-ab', '+a', '+b'], 2, 1)
    add('omitted-old-zero-new', ['@@ -1 +0,0 @@', '-x'], 0, 1)
    # unanalysed
    add('truncated', ['@@ -1,3 +1,3 @@', '-a', '+b'], None, None, False)
    add('garbage-in-hunk', ['@@ -1,2 +1,2 @@', '-a', 'oops', '+b'], None,
        None, False)
    add('interrupted', ['@@ -1,2 +1,2 @@', '-a', '@@ -5 +5 @@', '-x', '+y'],
        None, None, False)
    return V


VARIANTS = diff_variants()
RENDER = [('unix', None, None), ('dos', None, None), ('unix', 'unix', None),
          ('dos', 'dos', None), ('unix', None, 'utf-8'),
          ('dos', 'dos', 'utf-8'), ('unix', None, 'utf-16'),
          ('dos', None, 'utf-16'), ('unix', 'unix', 'utf-16'),
          ('dos', 'dos', 'utf-32'), ('unix', None, 'utf-32'),
          ('unix', None, 'latin-1'), ('unix', 'unix', 'utf-16-le'),
          ('dos', None, 'utf-32-be')]
KINDS = ['text-unset', 'text', 'binary', 'empty', 'absent', 'undecodable']
PRESTATS = [None, {'special': 123},
            {'insertions': 5, 'deletions': 7, 'lines changed': 12,
             'special': 1}]
OTHER_META = [{'path': 'f'}, {'path': 'f', 'revision': {'old': 'a'},
                              'z': [1, 2]},
              # the metadata keys the specification defines for a file: none
              # of them says anything about how many lines the diff changes
              {'path': {'old': 'a', 'new': 'b'}, 'op': 'move'},
              {'path': {'old': 'a', 'new': 'b'}, 'op': 'copy',
               'revision': {'old': '1', 'new': '2'}},
              {'path': 'f', 'op': 'delete'},
              {'path': 'f', 'op': 'create', 'unix file mode': '0100755'},
              {'path': 'f', 'op': 'move-modify', 'type': 'symlink',
               'symlink target': {'old': 'x', 'new': 'y'}},
              {'path': 'f', 'op': 'modify', 'type': 'file',
               'mimetype': 'application/octet-stream',
               'unix file mode': {'old': '0100644', 'new': '0100755'}},
              {'path': 'f', 'type': 'directory', 'op': None,
               'diff': 'none', 'binary': True, 'lines changed': 0}]


def file_attrs(vi, ri, kind, pre, other):
    """Keyword arguments for add_file + expected (ins, del, analysed)."""
    name, lines, ins, dels, analysed = VARIANTS[vi]
    nlk, le_opt, enc = RENDER[ri]
    nl = {'unix': '\n', 'dos': '\r\n'}[nlk]
    text = nl.join(lines) + nl
    data = text.encode(enc or 'ascii')
    meta = copy.deepcopy(other)
    if pre is not None:
        meta['stats'] = copy.deepcopy(pre)
    attrs = {'meta': meta}
    if kind == 'absent':
        return attrs, (None, None, False)
    if kind == 'empty':
        attrs['diff'] = b''
        return attrs, (None, None, False)
    if kind == 'undecodable':
        # bytes that are not text in the DECLARED encoding (a latin-1 diff
        # labelled utf-8): this one
        # file cannot be analysed -- every other file still is
        attrs['diff'] = b'@@ -1 +1 @@\n-caf\xe9\n+\xff\xfe\xfd\n'
        attrs['diff_encoding'] = 'utf-8'
        attrs.pop('diff_line_endings', None)
        return attrs, (None, None, False)
    attrs['diff'] = data
    if le_opt:
        attrs['diff_line_endings'] = le_opt
    if enc:
        attrs['diff_encoding'] = enc
    if kind == 'binary':
        attrs['diff_type'] = 'binary'
        return attrs, (None, None, False)
    if kind == 'text':
        attrs['diff_type'] = 'text'
    return attrs, (ins, dels, analysed)


SHAPES_Q = [(1,), (2,), (1, 1), (2, 1), (2, 2)]
SHAPES_T = SHAPES_Q + [(3,), (1, 2), (3, 2), (2, 2, 1)]


def slots_for(shape):
    """Slot domains (index 0 = default). A slot value is an index."""
    doms = []
    names = []
    for ci, nf in enumerate(shape):
        for fi in range(nf):
            doms.append(list(range(len(VARIANTS))))
            names.append(('variant', ci, fi))
            doms.append(list(range(len(RENDER))))
            names.append(('render', ci, fi))
            doms.append(list(range(len(KINDS))))
            names.append(('kind', ci, fi))
            doms.append(list(range(len(PRESTATS))))
            names.append(('fpre', ci, fi))
            doms.append(list(range(len(OTHER_META))))
            names.append(('fother', ci, fi))
        doms.append(list(range(len(PRESTATS))))
        names.append(('cpre', ci))
    doms.append(list(range(len(PRESTATS))))
    names.append(('tpre',))
    return doms, names


def build(shape, vec):
    """Returns (tree, expectations)."""
    doms, names = slots_for(shape)
    val = dict(zip(names, vec))
    top_meta = {'keep': 'me'}
    if PRESTATS[val[('tpre',)]] is not None:
        top_meta['stats'] = copy.deepcopy(PRESTATS[val[('tpre',)]])
    d = DiffX(meta=top_meta, preamble='p\n')
    exp_files = []
    for ci, nf in enumerate(shape):
        cm = {'id': 'c%d' % ci}
        if PRESTATS[val[('cpre', ci)]] is not None:
            cm['stats'] = copy.deepcopy(PRESTATS[val[('cpre', ci)]])
        ch = d.add_change(meta=cm)
        row = []
        for fi in range(nf):
            attrs, exp = file_attrs(val[('variant', ci, fi)],
                                    val[('render', ci, fi)],
                                    KINDS[val[('kind', ci, fi)]],
                                    PRESTATS[val[('fpre', ci, fi)]],
                                    OTHER_META[val[('fother', ci, fi)]])
            ch.add_file(**attrs)
            row.append((exp, PRESTATS[val[('fpre', ci, fi)]]))
        exp_files.append(row)
    return d, exp_files


def strip_stats(s):
    """Snapshot with every meta 'stats' key removed (for the 'everything
    else unchanged' comparison)."""
    s = copy.deepcopy(s)

    def drop(node):
        c = node['meta']['content']
        if isinstance(c, dict):
            c.pop('stats', None)
    drop(s)
    for ch in s['changes']:
        drop(ch)
        for f in ch['files']:
            drop(f)
    return s


def check_tree(shape, vec):
    d, exp_files = build(shape, vec)
    before = snap(d)
    v = []
    try:
        d.generate_stats()
    except Exception as e:
        from mc.observe import site_of
        return [('generate-stats-raised:%s:%s' % (type(e).__name__,
                                                  site_of(e)), repr(e))]
    after = snap(d)
    if freeze(strip_stats(before)) != freeze(strip_stats(after)):
        v.append(('non-stats-data-changed', 'options or other metadata '
                  'changed by generate_stats()'))
    tot = {'files': 0, 'insertions': 0, 'deletions': 0, 'lines changed': 0}
    for ci, ch in enumerate(d.changes):
        csum = {'insertions': 0, 'deletions': 0, 'lines changed': 0}
        for fi, f in enumerate(ch.files):
            (ins, dels, analysed), pre = exp_files[ci][fi]
            st = f.meta.get('stats')
            if analysed:
                want = dict(pre or {})
                want.update({'insertions': ins, 'deletions': dels,
                             'lines changed': ins + dels})
                if st != want:
                    nlk, le_opt, enc = RENDER[vec_get(shape, vec, 'render',
                                                      ci, fi)]
                    v.append(('file-stats-wrong:%s' % (
                        'enc=%s' % enc if enc in ('utf-16', 'utf-32',
                                                  'utf-16-le', 'utf-32-be')
                        else 'ascii-compatible'),
                        'change %d file %d (%s, %s): stats %r expected %r'
                        % (ci, fi, VARIANTS[vec_get(shape, vec, 'variant',
                                                    ci, fi)][0],
                           RENDER[vec_get(shape, vec, 'render', ci, fi)],
                           st, want)))
            else:
                if st != pre:
                    v.append(('unanalysed-file-stats-touched',
                              'change %d file %d: stats %r, had %r'
                              % (ci, fi, st, pre)))
            for k in csum:
                csum[k] += (st or {}).get(k, 0)
        cst = ch.meta.get('stats')
        cpre = PRESTATS[vec_get(shape, vec, 'cpre', ci)]
        want = dict(cpre or {})
        want.update(csum)
        want['files'] = len(ch.files)
        if cst != want:
            v.append(('change-stats-wrong', 'change %d: %r expected %r'
                      % (ci, cst, want)))
        tot['files'] += (cst or {}).get('files', 0)
        for k in csum:
            tot[k] += (cst or {}).get(k, 0)
    tpre = PRESTATS[vec[-1]]
    want = dict(tpre or {})
    want.update(tot)
    want['changes'] = len(d.changes)
    if d.meta.get('stats') != want:
        v.append(('top-stats-wrong', '%r expected %r'
                  % (d.meta.get('stats'), want)))
    # idempotence
    once = snap(d)
    d.generate_stats()
    if freeze(snap(d)) != freeze(once):
        v.append(('not-idempotent', 'second generate_stats() changed the '
                  'tree'))
    return v


def vec_get(shape, vec, what, ci, fi=None):
    doms, names = slots_for(shape)
    key = (what, ci) if fi is None else (what, ci, fi)
    return vec[names.index(key)]


# ---------------------------------------------------------------------- scale
def big_diff(nhunks, codec, nlk, straddle):
    """(bytes, insertions, deletions) of a diff with `nhunks` hunks of known
    counts in `codec`; with `straddle`, a multi-byte character is placed so
    that it starts just before every buffer-size boundary (a block-wise
    decoder that cuts at byte offsets splits it)."""
    from mc.spec import enc_nobom, signature
    from mc.alphabets import BUFFER_SIZES
    c = codec or 'ascii'
    nl = {'unix': '\n', 'dos': '\r\n'}[nlk]
    ch = 'e' if codec is None else (
        '\U0001f600' if codec.startswith('utf-16') else 'é')

    def enc(x):
        return enc_nobom(x, c)
    w = len(enc('a'))
    half = len(enc(ch)) // 2
    targets = sorted(B - half for B in BUFFER_SIZES) \
        if (straddle and codec and len(enc(ch)) > w) else []
    hunk_span = len(enc('@@ -99990,2 +99990,3 @@ ctx' + nl + ' keep 9999' +
                        nl + '-old 9999' + nl + '+new 9999 X' + nl +
                        '+more 9999' + nl)) + 8 * w
    out = []
    size = [0]

    def emit(line):
        bts = enc(line + nl)
        out.append(bts)
        size[0] += len(bts)
    emit('--- a/f')
    emit('+++ b/f')
    ins = dels = 0
    for h in range(nhunks):
        emit('@@ -%d,2 +%d,3 @@ ctx' % (h * 10 + 1, h * 10 + 1))
        emit(' keep %d' % h)
        emit('-old %d' % h)
        prefix = '+new %d ' % h
        start = size[0] + len(enc(prefix))
        while targets and targets[0] < start:
            targets.pop(0)
        if targets and targets[0] < start + hunk_span and \
                (targets[0] - start) % w == 0:
            prefix += 'p' * ((targets[0] - start) // w)
            targets.pop(0)
        emit(prefix + ch)
        emit('+more %d' % h)
        ins += 2
        dels += 1
    data = b''.join(out)
    if codec in ('utf-16', 'utf-32'):
        data = signature(c) + data
    return data, ins, dels


SCALE_HUNKS = [1, 9, 10, 11, 20, 75, 150, 300, 1200, 2500, 10000]
SCALE_HUNKS_T = SCALE_HUNKS + [40000]
SCALE_RENDER = [(None, 'unix', False), (None, 'dos', False),
                ('utf-8', 'unix', True), ('utf-8', 'dos', True),
                ('utf-16', 'unix', True), ('utf-16-le', 'dos', True),
                ('utf-16-be', 'unix', True), ('utf-32', 'unix', False),
                ('latin-1', 'unix', False)]


def check_scale(nh, ri, explicit_le, second_tree):
    codec, nlk, straddle = SCALE_RENDER[ri]
    data, ins, dels = big_diff(nh, codec, nlk, straddle)
    if codec == 'utf-16-be' and nh % 2:
        data = b'\xfe\xff' + data          # big-endian text with a BOM
        codec_decl = 'utf-16'
    else:
        codec_decl = codec

    def mk():
        d = DiffX(meta={'keep': 'me'})
        ch = d.add_change(meta={'id': 'c'})
        attrs = {'meta': {'path': 'big'}, 'diff': bytes(bytearray(data))}
        if codec_decl:
            attrs['diff_encoding'] = codec_decl
        if explicit_le:
            attrs['diff_line_endings'] = nlk
        ch.add_file(**attrs)
        ch.add_file(meta={'path': 'small'},
                    diff=('\n'.join(hunk_lines('DI')) + '\n').encode())
        return d
    v = []
    trees = [mk(), mk()] if second_tree else [mk()]
    for t in trees:
        t.generate_stats()
    for t in trees:
        st = t.changes[0].files[0].meta.get('stats')
        want = {'insertions': ins, 'deletions': dels,
                'lines changed': ins + dels}
        if st != want:
            v.append(('file-stats-wrong:scale:%s' % (codec or 'none'),
                      '%d hunks (%d bytes, %s, %s): stats %r expected %r'
                      % (nh, len(data), codec_decl, nlk, st, want)))
        cs = t.changes[0].meta.get('stats')
        if cs != {'files': 2, 'insertions': ins + 1, 'deletions': dels + 1,
                  'lines changed': ins + dels + 2}:
            v.append(('change-stats-wrong:scale', repr(cs)))
    if second_tree:
        a = trees[0].changes[0].files[0].meta
        b = trees[1].changes[0].files[0].meta
        if a.get('stats') is b.get('stats') and a.get('stats') is not None:
            v.append(('stats-dict-shared-between-trees:scale',
                      'two trees holding equal %d-byte diffs share one '
                      'meta["stats"] object' % len(data)))
        # (no probing mutation here: a shared, cached dict would be
        # poisoned for the rest of this process and later cases would fail
        # for a reason that does not reproduce in a fresh process)
    return v


def check_noeol(vi, ri, kind):
    """Same diff with the final newline sequence removed: the last line is
    still a line (the writer appends the missing newline on output)."""
    attrs, (ins, dels, analysed) = file_attrs(vi, ri, kind, None,
                                              OTHER_META[0])
    nlk, le_opt, enc = RENDER[ri]
    from mc.spec import nl as _nl
    nlb = _nl(nlk, enc or 'ascii')
    data = attrs['diff']
    if not data.endswith(nlb):
        return []
    attrs['diff'] = data[:-len(nlb)]
    d = DiffX()
    f = d.add_change().add_file(**attrs)
    try:
        d.generate_stats()
    except Exception as e:
        from mc.observe import site_of
        return [('generate-stats-raised:%s:%s' % (type(e).__name__,
                                                  site_of(e)), repr(e))]
    st = f.meta.get('stats')
    if analysed:
        want = {'insertions': ins, 'deletions': dels,
                'lines changed': ins + dels}
        if st != want:
            return [('file-stats-wrong:no-final-newline',
                     'variant %s rendering %r without the final newline: '
                     'stats %r expected %r' % (VARIANTS[vi][0], RENDER[ri],
                                               st, want))]
    elif st is not None:
        return [('unanalysed-file-stats-touched:no-final-newline',
                 'variant %s: %r' % (VARIANTS[vi][0], st))]
    return []


def check_char(cp, ri, typed):
    """Hunk lines whose payload holds chr(cp) inside, at the start and at
    the end; counts known by construction."""
    ch = chr(cp)
    nlk, le_opt, enc = RENDER[ri]
    nl = {'unix': '\n', 'dos': '\r\n'}[nlk]
    lines = ['--- a/f', '+++ b/f'] + \
        hunk_lines('CDIC', payload='p' + ch + 'q') + \
        hunk_lines('IID', 20, 20, payload=ch) + \
        hunk_lines('DCI', 40, 41, payload='end' + ch)
    try:
        data = (nl.join(lines) + nl).encode(enc or 'utf-8')
    except UnicodeEncodeError:
        return None
    attrs = {'meta': {'path': 'f'}, 'diff': data}
    if le_opt:
        attrs['diff_line_endings'] = le_opt
    if enc:
        attrs['diff_encoding'] = enc
    if typed:
        attrs['diff_type'] = 'text'
    d = DiffX()
    f = d.add_change().add_file(**attrs)
    try:
        d.generate_stats()
    except Exception as e:
        from mc.observe import site_of
        return [('generate-stats-raised:%s:%s' % (type(e).__name__,
                                                  site_of(e)), repr(e))]
    want = {'insertions': 4, 'deletions': 3, 'lines changed': 7}
    if f.meta.get('stats') != want:
        import unicodedata
        return [('file-stats-wrong:special-character:%s'
                 % unicodedata.category(ch),
                 'payload character U+%04X, rendering %r: stats %r expected '
                 '%r' % (cp, RENDER[ri], f.meta.get('stats'), want))]
    return []


# ------------------------------------------------------------------ histories
# generate_stats() on a tree that was already analysed and then edited must
# give what a fresh tree in the same state gives (differential oracle: the
# state reached through a history vs. the same state reached directly).

def hist_ops(nfiles):
    ops = []
    u16 = ('\n'.join(hunk_lines('DDI')) + '\n').encode('utf-16-le')
    for fi in range(nfiles):
        for st in (PRESTATS[1], PRESTATS[2],
                   {'insertions': 40, 'deletions': 2, 'lines changed': 42,
                    'custom': 'k'}):
            ops.append(('file-stats', fi, st))
        ops.append(('file-stats-del', fi, None))
        for enc in ('utf-16-le', 'utf-8', 'latin-1'):
            ops.append(('diff-encoding', fi, enc))
        for le in ('unix', 'dos'):
            ops.append(('diff-le', fi, le))
        for t in ('binary', 'text'):
            ops.append(('diff-type', fi, t))
        ops.append(('diff-replace', fi, ('\n'.join(hunk_lines('III')) +
                                         '\n').encode('ascii')))
        ops.append(('diff-replace', fi, u16))
        ops.append(('diff-replace', fi, b'@@ -1,3 +1,3 @@\n-a\n'))
        ops.append(('diff-same-bytes-new-object', fi, None))
        ops.append(('meta-other', fi, None))
    ops.append(('change-stats', 0, PRESTATS[2]))
    ops.append(('top-stats', 0, PRESTATS[2]))
    ops.append(('change-stats-del', 0, None))
    ops.append(('add-file', 0, None))
    ops.append(('pop-file', 0, None))
    ops.append(('generate', 0, None))
    ops.append(('generate-change', 0, None))
    ops.append(('generate-file', 0, None))
    return ops


def apply_hist_op(d, op):
    name, fi, arg = op
    ch = d.changes[0]
    f = ch.files[fi] if fi < len(ch.files) else None
    if name == 'file-stats' and f is not None:
        f.meta['stats'] = copy.deepcopy(arg)
    elif name == 'file-stats-del' and f is not None:
        f.meta.pop('stats', None)
    elif name == 'diff-encoding' and f is not None:
        f.diff_encoding = arg
    elif name == 'diff-le' and f is not None:
        f.diff_line_endings = arg
    elif name == 'diff-type' and f is not None:
        f.diff_type = arg
    elif name == 'diff-replace' and f is not None:
        f.diff = bytes(bytearray(arg))
    elif name == 'diff-same-bytes-new-object' and f is not None:
        if f.diff is not None:
            f.diff = bytes(bytearray(f.diff))
    elif name == 'meta-other' and f is not None:
        f.meta['touched'] = 'yes'
    elif name == 'change-stats':
        ch.meta['stats'] = copy.deepcopy(arg)
    elif name == 'change-stats-del':
        ch.meta.pop('stats', None)
    elif name == 'top-stats':
        d.meta['stats'] = copy.deepcopy(arg)
    elif name == 'add-file':
        ch.add_file(meta={'path': 'new'},
                    diff=('\n'.join(hunk_lines('DI')) + '\n').encode())
    elif name == 'pop-file':
        if len(ch.files) > 1:
            ch.files.pop()
    elif name == 'generate':
        d.generate_stats()
    elif name == 'generate-change':
        ch.generate_stats()
    elif name == 'generate-file' and f is not None:
        f.generate_stats()


def check_history(shape, vec, ops):
    from mc.domsnap import tree_from_snap
    d, exp_files = build(shape, vec)
    try:
        d.generate_stats()
        for op in ops:
            apply_hist_op(d, op)
        state = snap(d)
        fresh = tree_from_snap(state)
        if freeze(snap(fresh)) != freeze(state):
            return [('harness:tree-from-snap', 'rebuild differs')]
        d.generate_stats()
        fresh.generate_stats()
    except Exception as e:
        from mc.observe import site_of
        return [('history-raised:%s:%s' % (type(e).__name__, site_of(e)),
                 repr(e))]
    if freeze(snap(d)) != freeze(snap(fresh)):
        a, b = snap(d), snap(fresh)
        where = 'top'
        if freeze(a['changes']) != freeze(b['changes']):
            where = 'change'
            for x, y in zip(a['changes'][0]['files'],
                            b['changes'][0]['files']):
                if freeze(x) != freeze(y):
                    where = 'file'
        return [('stale-after-history:%s:%s' % (where, ops[-1][0]),
                 'after generate_stats(), %r, generate_stats() the tree '
                 'differs from a fresh tree in the same state that was '
                 'analysed once\n history tree %s\n fresh tree   %s'
                 % ([o[:2] for o in ops],
                    _short(a['changes'][0]), _short(b['changes'][0])))]
    return []


def _short(x):
    r = repr(x)
    return r if len(r) < 600 else r[:600] + '...'


def plan(tier):
    shapes = SHAPES_Q if tier == 'quick' else SHAPES_T
    k = 2 if tier == 'quick' else 3
    units = []
    for si, shape in enumerate(shapes):
        doms, names = slots_for(shape)
        combos = []
        for r in range(0, k + 1):
            combos.extend(itertools.combinations(range(len(doms)), r))
        if tier == 'thorough' and len(doms) > 20:
            combos = [c for c in combos if len(c) <= 2]
        step = 6 if tier == "quick" else 10
        for i in range(0, len(combos), step):
            units.append((si, combos[i:i + step]))
    # full product for the single-file tree: variant x render x kind x pre
    units.append(('single',))
    for nh in (SCALE_HUNKS if tier == 'quick' else SCALE_HUNKS_T):
        for ri in range(len(SCALE_RENDER)):
            units.append(('scale', nh, ri))
    # diffs whose last line is not terminated (difflib with lineterm='',
    # hand-joined lines): every variant x rendering
    units.append(('noeol',))
    # the character pass: one special character in the payload of hunk
    # lines, every rendering that can encode it
    from mc.alphabets import SPECIAL_CHARS
    for lo in range(0, len(SPECIAL_CHARS), 10):
        units.append(('chars', lo, lo + 10))
    # histories: generate, edit, (edit,) generate vs fresh tree
    nops = len(hist_ops(2))
    for base in range(3):
        for a in range(nops):
            units.append(('hist', base, a))
    return {
        'units': units,
        'shapes': shapes,
        'rule': 'trees of shapes %r (files per change) built through the '
                'public API; per file: %d diff variants with known (+,-) '
                'counts by construction (hunk bodies, look-alike payloads, '
                'junk between/before/after hunks, zero-length sides, no '
                'hunks, truncated / corrupt / interrupted hunks) x %d '
                'renderings (unix/dos x explicit/implicit line_endings x '
                'encoding unset/utf-8/utf-16/utf-32/latin-1/LE/BE) x {text '
                'unset, text, binary, empty, absent} x 3 pre-existing stats '
                'dicts x other metadata; pre-existing stats on changes and '
                'top level; every choice vector with <= %d non-default '
                'slots, plus the full product for the one-file tree. '
                'Non-trivial: >= 2 files with different variants, or a '
                'multi-byte encoding. Scale: diffs of 1..2500 hunks (up to '
                '~130 KB) x 9 renderings with multi-byte characters placed '
                'just before every buffer-size boundary (1024/4096/8192/65536) '
                'and BOM-prefixed big-endian text, in one and in two live '
                'trees. Character pass: each of the %d special characters '
                '(controls, separators, str.splitlines() breakers, format '
                'and normalisation-sensitive characters) in hunk payloads '
                'x every rendering that can encode it. '
                'Histories: generate_stats(), then every '
                'sequence of 1-2 (thorough 3) edits from %d operations (stats '
                'overwritten / deleted, diff_encoding / line_endings / type '
                'changed, diff replaced, files added / removed, partial '
                'generate calls), then generate_stats(): the tree must equal '
                'a fresh tree rebuilt in the same state and analysed once.'
                % (shapes, len(VARIANTS), len(RENDER), k,
                   len(__import__('mc.alphabets').alphabets.SPECIAL_CHARS),
                   len(hist_ops(2))),
        'bound': 'k=%d deviations per tree; histories of <= %d edits between two generate_stats() calls' % (k, 2 if tier == 'quick' else 3),
        'exhaustive': True,
        'assumptions': ['declared line endings are truthful (content uses '
                        'the declared kind)'],
    }


def run_unit(unit, tier):
    acc = Acc()
    shapes = SHAPES_Q if tier == 'quick' else SHAPES_T

    def one(shape, vec, nt):
        viols = check_tree(shape, vec)
        acc.evals += 1
        acc.states += 1
        acc.transitions += 2
        acc.validated += 1
        if nt:
            acc.nontrivial += 1
        for key, msg in viols:
            acc.violation(key, msg, {'kind': 'tree', 'shape': list(shape),
                                     'vec': list(vec)})
        acc.outcome('ok' if not viols else 'violation')

    if unit[0] == 'scale':
        nh = unit[1]
        for ri in (unit[2],):
            for explicit in (False, True):
                for second in (False, True):
                    viols = check_scale(nh, ri, explicit, second)
                    acc.evals += 1
                    acc.states += 1
                    acc.transitions += 2
                    acc.validated += 1
                    acc.nontrivial += 1
                    for key, msg in viols:
                        acc.violation(key, msg, {'kind': 'scale', 'nh': nh,
                                                 'ri': ri, 'le': explicit,
                                                 'second': second})
                    acc.outcome('ok' if not viols else 'violation')
        acc.sample({'scale_hunks': nh, 'renderings': len(SCALE_RENDER)}, 1)
        return acc
    if unit[0] == 'noeol':
        for vi in range(len(VARIANTS)):
            for ri in range(len(RENDER)):
                for kind in ('text-unset', 'text'):
                    viols = check_noeol(vi, ri, kind)
                    acc.evals += 1
                    acc.states += 1
                    acc.transitions += 2
                    acc.validated += 1
                    acc.nontrivial += 1
                    for key, msg in viols:
                        acc.violation(key, msg, {'kind': 'noeol', 'vi': vi,
                                                 'ri': ri, 'fkind': kind})
                    acc.outcome('ok' if not viols else 'violation')
        acc.sample({'unterminated_last_line': VARIANTS[0][1]}, 1)
        return acc
    if unit[0] == 'chars':
        from mc.alphabets import SPECIAL_CHARS
        for cp in SPECIAL_CHARS[unit[1]:unit[2]]:
            if cp in (0x0A, 0x0D):
                continue        # these ARE line structure
            for ri in range(len(RENDER)):
                for typed in (False, True):
                    viols = check_char(cp, ri, typed)
                    if viols is None:
                        continue
                    acc.evals += 1
                    acc.states += 1
                    acc.transitions += 2
                    acc.validated += 1
                    acc.nontrivial += 1
                    for key, msg in viols:
                        acc.violation(key, msg, {'kind': 'char', 'cp': cp,
                                                 'ri': ri, 'typed': typed})
                    acc.outcome('ok' if not viols else 'violation')
        acc.sample({'special_characters': ['U+%04X' % c for c in
                                           SPECIAL_CHARS[unit[1]:unit[2]]]},
                   1)
        return acc
    if unit[0] == 'hist':
        _, base, a = unit
        shape = (2,)
        doms, names = slots_for(shape)
        vec = [0] * len(doms)
        if base == 1:      # second file: UTF-16-LE bytes declared as nothing
            vec[names.index(('variant', 0, 1))] = 5
            vec[names.index(('fpre', 0, 1))] = 1
        elif base == 2:    # first file binary with pre-existing counts
            vec[names.index(('kind', 0, 0))] = 2
            vec[names.index(('fpre', 0, 0))] = 2
            vec[names.index(('cpre', 0))] = 1
        ops = hist_ops(2)
        seqs = [(ops[a],)] + [(ops[a], o2) for o2 in ops]
        if tier == 'thorough':
            seqs += [(ops[a], o2, o3) for o2 in ops[::2] for o3 in ops[::3]]
        for seq in seqs:
            viols = check_history(shape, vec, list(seq))
            acc.evals += 1
            acc.states += 1
            acc.transitions += 2 + len(seq)
            acc.validated += 1
            acc.nontrivial += 1
            for key, msg in viols:
                acc.violation(key, msg, {'kind': 'hist', 'base': base,
                                         'vec': list(vec),
                                         'ops': to_jsonable(
                                             [list(o) for o in seq])})
            acc.outcome('ok' if not viols else 'violation')
        acc.sample({'history': ['generate_stats'] +
                    [list(o[:2]) for o in seqs[-1]] + ['generate_stats']}, 1)
        return acc
    if unit[0] == 'single':
        shape = (1,)
        for vi in range(len(VARIANTS)):
            for ri in range(len(RENDER)):
                for ki in range(len(KINDS)):
                    for pi in range(len(PRESTATS)):
                        one(shape, [vi, ri, ki, pi, 0, 0, 0],
                            RENDER[ri][2] not in (None, 'utf-8', 'latin-1'))
        acc.sample({'shape': [1], 'variant': VARIANTS[12][0],
                    'lines': VARIANTS[12][1]}, 1)
        return acc
    si, combos = unit
    shape = shapes[si]
    doms, names = slots_for(shape)
    for combo in combos:
        alts = [range(1, len(doms[i])) for i in combo]
        for choice in itertools.product(*alts):
            vec = [0] * len(doms)
            for i, c in zip(combo, choice):
                vec[i] = c
            nt = sum(1 for i in combo if names[i][0] == 'variant') >= 1 \
                and sum(shape) >= 2
            one(shape, vec, nt)
    acc.sample({'shape': list(shape), 'deviating_slots':
                [names[i] for i in combos[-1]]}, 1)
    return acc


def replay(payload):
    if payload.get('kind') == 'scale':
        return [{'key': k, 'msg': m} for k, m in check_scale(
            payload['nh'], payload['ri'], payload['le'], payload['second'])]
    if payload.get('kind') == 'noeol':
        return [{'key': k, 'msg': m} for k, m in check_noeol(
            payload['vi'], payload['ri'], payload['fkind'])]
    if payload.get('kind') == 'char':
        return [{'key': k, 'msg': m} for k, m in (check_char(
            payload['cp'], payload['ri'], payload['typed']) or [])]
    if payload.get('kind') == 'hist':
        ops = [tuple(o) for o in from_jsonable(payload['ops'])]
        viols = check_history((2,), payload['vec'], ops)
        return [{'key': k, 'msg': m} for k, m in viols]
    if payload.get('kind') != 'tree':
        return []
    viols = check_tree(tuple(payload['shape']), payload['vec'])
    return [{'key': k, 'msg': m} for k, m in viols]
