"""C11 -- header lines are accepted iff they match the spec header grammar."""
import io
import itertools
import re

from pydiffx import DiffXReader
from pydiffx.errors import DiffXParseError

from mc.explore import Acc, deviations
from mc.observe import site_of
from mc.spec import to_jsonable, from_jsonable


def _int_limit():
    import sys
    n = sys.get_int_max_str_digits()
    return n if n else float('inf')


ID = 'C11'
LEVEL = 'model_checking'

# The grammar of the statement, as one anchored expression (applied with
# fullmatch to the header line without its terminator).
KEY = rb'[A-Za-z][A-Za-z0-9_-]*'
VAL = rb'[A-Za-z0-9/._-]+'
GRAMMAR = re.compile(
    rb'#(?P<dots>\.{0,3})(?P<name>diffx|preamble|meta|change|file|diff):'
    rb'(?: (?P<opts>' + KEY + rb'=' + VAL + rb'(?:, ' + KEY + rb'=' + VAL +
    rb')*))?')
INT = re.compile(rb'-?[0-9]+')

ALPHA = [b'a', b'Z', b'5', b'_', b'-', b'.', b'/', b'+', b'=', b',', b':',
         b'#', b' ', b'\t', b'\xff', b'\r']

PRE = b'#diffx: version=1.0\n'


def expected(header):
    """None (reject) or (section id, {key: [allowed values]})."""
    m = GRAMMAR.fullmatch(header)
    if not m:
        return None
    opts = {}
    if m.group('opts'):
        for pair in m.group('opts').split(b', '):
            k, v = pair.split(b'=', 1)
            if INT.fullmatch(v) and len(v) <= _int_limit():
                vals = [int(v)]
            elif INT.fullmatch(v):
                # CPython refuses to convert > 4300 digits by default: the
                # verbatim string is the only faithful report
                vals = [v.decode('ascii')]
            else:
                vals = [v.decode('ascii')]
            opts.setdefault(k.decode('ascii'), []).extend(vals)
    return (m.group('dots') + m.group('name')).decode('ascii'), opts


class Timeout(BaseException):
    pass


class UnitAborted(BaseException):
    pass


WATCHDOG_S = 5
_TIMEOUTS = [0]
_IN_REPLAY = [False]


def _alarm(signum, frame):
    raise Timeout()


def read_header(data, nrec):
    import signal
    signal.signal(signal.SIGALRM, _alarm)
    signal.setitimer(signal.ITIMER_REAL,
                     2 if _IN_REPLAY[0] else WATCHDOG_S)
    try:
        return _read_header(data, nrec)
    except Timeout as e:
        _TIMEOUTS[0] += 1
        return [], e
    finally:
        signal.setitimer(signal.ITIMER_REAL, 0)


STREAM = ['bytesio']


def _open(data):
    if STREAM[0] == 'bytesio':
        return io.BytesIO(data)
    if STREAM[0].startswith('buffered-'):
        return io.BufferedReader(io.BytesIO(data),
                                 buffer_size=int(STREAM[0].split('-')[1]))
    import tempfile
    f = tempfile.TemporaryFile()
    f.write(data)
    f.seek(0)
    return f


def _read_header(data, nrec):
    r = DiffXReader(_open(data))
    recs = []
    try:
        for rec in r:
            recs.append(rec)
            if len(recs) > nrec:
                break
    except DiffXParseError as e:
        return recs, e
    except Exception as e:
        return recs, e
    return recs, None


def check_header(header, context=PRE, index=1, tail=b'', nl=b'\n'):
    """`header` is placed at record position `index` after `context`; `nl`
    is the file's header newline (LF, or CRLF when the context uses it)."""
    data = context + header + nl + tail
    exp = expected(header)
    recs, exc = read_header(data, index)
    v = []
    got_rec = recs[index] if len(recs) > index else None
    if isinstance(exc, Timeout):
        return [('does-not-terminate', 'no result within %d s for header %r'
                 % (WATCHDOG_S, header[:120]))]
    if exc is not None and not isinstance(exc, DiffXParseError) \
            and got_rec is None:
        return [('other-exception:%s:%s' % (type(exc).__name__,
                                            site_of(exc)),
                 '%r raised %r' % (header, exc))]
    if exp is None:
        if got_rec is not None:
            v.append(('invalid-header-accepted:%s' % classify(header),
                      '%r accepted with options %r'
                      % (header, got_rec['options'])))
    else:
        sid, opts = exp
        if got_rec is None:
            v.append(('valid-header-rejected:%s' % classify(header),
                      '%r rejected: %s' % (header, exc)))
        else:
            go = got_rec['options']
            bad = (got_rec['section'] != sid or set(go) != set(opts) or
                   any(not any(type(go[k]) is type(a) and go[k] == a
                               for a in opts[k]) for k in go if k in opts))
            if bad:
                v.append(('options-misreported:%s' % classify(header),
                          '%r reported as %s %r, expected %s %r'
                          % (header, got_rec['section'], go, sid, opts)))
    return v


def classify(header):
    """Coarse but discriminating class of a header for stable keys: for an
    invalid header the first rule it breaks; for a valid one the features
    of its option values."""
    h = header
    if b'\xff' in h or any(c > 0x7e for c in h):
        return 'non-ascii'
    m = re.match(rb'#\.{0,3}[a-z]+:(.*)$', h, re.S)
    if not m:
        return 'prefix-part'
    rest = m.group(1)
    if not rest:
        return 'no-options'
    if not rest.startswith(b' '):
        return 'no-single-space'
    pairs = rest[1:].split(b', ')
    feats = set()
    for p in pairs:
        if b'=' not in p:
            return 'pair-without-equals'
        k, val = p.split(b'=', 1)
        if not re.fullmatch(KEY, k):
            if re.match(KEY, k):
                return 'key-bad-tail'
            return 'key-bad-start'
        if not re.fullmatch(VAL, val):
            if b'=' in val:
                return 'value-contains-equals'
            if re.match(rb'[A-Za-z0-9/_.-]+', val):
                return 'value-bad-tail'
            return 'value-bad-start'
        if val.startswith(b'-'):
            feats.add('dash-first')
        if val.startswith(b'/'):
            feats.add('slash-first')
        elif b'/' in val:
            feats.add('slash')
        if re.fullmatch(rb'-?[0-9]+', val):
            feats.add('int')
        elif re.fullmatch(rb'[0-9_+-]+', val):
            feats.add('intlike')
    if len(set(p.split(b'=')[0] for p in pairs)) != len(pairs):
        feats.add('dup-key')
    for f in ('dash-first', 'slash-first', 'slash', 'intlike', 'int',
              'dup-key'):
        if f in feats:
            return f
    return 'plain'


# (b) token level
LEADS = [b' ', b'', b'  ', b'\t']
KEYS = [b'a', b'a1', b'a-', b'a_', b'1a', b'_a', b'-a', b'a+', b'a\xc3\xa9',
        b'', b'A.b', b'length']
EQS = [b'=', b' = ', b'==', b'', b'= ']
VALS = [b'v', b'5', b'-5', b'1_0', b'007', b'a/b', b'/a', b'a.b', b'.',
        b'a+b', b'a,b', b'v\xc3\xa9', b'a=b', b'', b'-', b'+5', b'5-',
        b'--5', b'-0', b'1e3', b'0x10', b'a b']
SEPS = [b', ', b',', b' ,', b'  ', b' , ', b';']
TRAILS = [b'', b' ', b',', b':', b', ']

# (c) prefix part
NAMES = [b'diffx', b'preamble', b'meta', b'change', b'file', b'diff',
         b'foo', b'Meta', b'', b'metadata']


def build_tokens(vec, npairs):
    lead = vec[0]
    out = lead
    for i in range(npairs):
        k, e, val = vec[1 + 4 * i], vec[2 + 4 * i], vec[3 + 4 * i]
        if i:
            out += vec[4 * i]          # separator before pair i
        out += k + e + val
    out += vec[-1]
    return out


def token_domains(npairs):
    doms = [LEADS]
    for i in range(npairs):
        doms += [KEYS, EQS, VALS]
        if i < npairs - 1:
            doms.append(SEPS)
    doms.append(TRAILS)
    return doms


def plan(tier):
    L = 5 if tier == 'quick' else 6
    units = [('chars-short',)]
    for a in range(len(ALPHA)):
        for b in range(len(ALPHA)):
            units.append(('chars', a, b, L))
    for npairs in (1, 2, 3):
        doms = token_domains(npairs)
        k = 3 if tier == 'quick' else 4
        units.append(('tokens', npairs, k))
    units.append(('prefix',))
    for a in range(len(ALPHA)):
        units.append(('crlf-chars', a))
    units.append(('crlf-tokens',))
    units.append(('late-invalid',))
    for kind in ('buffered-16', 'buffered-64', 'file'):
        units.append(('tokens-stream', kind))
    for lo in range(0, 256, 32):
        units.append(('line-start', lo, lo + 32))
    units.append(('contexts',))
    units += [('threads', a, b) for a, b in [(0, 4), (2, 3), (3, 4)]]
    units.append(('scale',))
    for lo in range(0, 256, 16):
        units.append(('bytes', lo, lo + 16))
    return {
        'units': units,
        'rule': '(a) every byte string over the 16-character alphabet '
                '{a Z 5 _ - . / + = , : # space tab 0xFF CR} up to length %d '
                'placed after "#.change:"; (b) token level: 4 leads x 1-3 '
                'pairs of 12 keys x 5 "=" variants x 22 values x 6 pair '
                'separators x 5 trailers with a bounded number of '
                'non-default tokens (1 pair: full product); (c) "#", 0-4 '
                'dots, 10 names, ":" present/doubled/missing/spaced; every '
                'byte, byte pair, codec signature (BOM) and signature-byte '
                'triple before the "#" of the first and of a later header; (d) the '
                'same option strings on every legal header kind; (e) every byte '
                'value 0..255 in every grammatical position and every pair of '
                'byte values as a value / key tail. Each '
                'candidate is read by the real DiffXReader in a context '
                'where its section id is legal. Oracle: the grammar of the '
                'statement as one anchored regex: accept <=> full match; '
                'reject => DiffXParseError only; options verbatim, int iff '
                '-?[0-9]+; duplicate keys report one of the given values. '
                'Non-trivial: candidate contains "=".' % L,
        'bound': 'length <= %d characters' % L,
        'exhaustive': True,
        'assumptions': ['characters outside the alphabet behave like a '
                        'representative of their class (letter, digit, '
                        'punctuation the grammar mentions, other)'],
    }


CONTEXTS = {
    'diffx': (b'', 0, b''),
    '.preamble': (PRE, 1, None),
    '.meta': (PRE, 1, None),
    '.change': (PRE, 1, b''),
    '..preamble': (PRE + b'#.change:\n', 2, None),
    '..meta': (PRE + b'#.change:\n', 2, None),
    '..file': (PRE + b'#.change:\n', 2, b''),
    '...meta': (PRE + b'#.change:\n#..file:\n', 3, None),
    '...diff': (PRE + b'#.change:\n#..file:\n#...meta: length=11\n'
                b'{"a": "x"}\n', 4, None),
}


def OPT_UNITS(tier):
    """Units repeated in an interpreter started with -O: validation must
    not live in assert statements."""
    us = plan(tier)['units']
    keep = [u for u in us if u[0] in ('chars-short', 'prefix', 'contexts')]
    keep += [u for u in us if u[0] == 'tokens'][:1]
    keep += [u for u in us if u[0] == 'chars'][:20]
    keep += [u for u in us if u[0] == 'bytes'][:3]
    keep += [u for u in us if u[0] == 'line-start'][:1]
    return keep


def run_unit(unit, tier):
    if unit[0] == 'threads':
        # two threads, each writing and reading its own file (LF and CRLF
        # header lines), every interleaving with <= 2 / 3 preemptions
        from mc import wrgraph
        return wrgraph.run_thread_unit(unit, tier, Acc)
    acc = Acc()
    try:
        _run_unit(unit, tier, acc)
    except UnitAborted:
        pass
    return acc


def _run_unit(unit, tier, acc):

    def one(header, payload_extra=None, **kw):
        viols = check_header(header, **kw)
        acc.evals += 1
        acc.states += 1
        acc.transitions += 1
        acc.validated += 1
        if b'=' in header:
            acc.nontrivial += 1
        for key, msg in viols:
            p = {'kind': 'header', 'header': to_jsonable(header)}
            p.update(payload_extra or {})
            acc.violation(key, msg, p)
        acc.outcome('accept' if expected(header) else 'reject')
        if _TIMEOUTS[0] >= 2:
            _TIMEOUTS[0] = 0
            acc.cap_hit = True
            raise UnitAborted()

    if unit[0] == 'chars-short':
        for n in (0, 1):
            for t in itertools.product(ALPHA, repeat=n):
                one(b'#.change:' + b''.join(t))
    elif unit[0] == 'chars':
        _, a, b, L = unit
        pre = b'#.change:' + ALPHA[a] + ALPHA[b]
        for n in range(0, L - 1):
            for t in itertools.product(ALPHA, repeat=n):
                one(pre + b''.join(t))
        acc.sample({'prefix': repr(pre)}, 1)
    elif unit[0] == 'tokens':
        _, npairs, k = unit
        doms = token_domains(npairs)
        if npairs == 1:
            it = ((list(v), 0) for v in itertools.product(*doms))
        else:
            it = deviations(doms, k)
        for vec, r in it:
            one(b'#.change:' + build_tokens(vec, npairs))
        acc.sample({'token_header': repr(b'#.change:' + build_tokens(
            [d[0] for d in doms], npairs))}, 1)
    elif unit[0] == 'bytes':
        # completeness over byte VALUES: every byte in every grammatical
        # position (and every pair of bytes as a value / key tail)
        skip = {0x0a}
        for b1 in range(unit[1], unit[2]):
            if b1 in skip:
                continue
            x = bytes([b1])
            for h in (b'#.change: ' + x + b'=v', b'#.change: a' + x + b'=v',
                      b'#.change: ab' + x + b'c=v', b'#.change: a=' + x,
                      b'#.change: a=' + x + b'v', b'#.change: a=v' + x,
                      b'#.change: a=v' + x + b'w', b'#.change: a=1' + x + b'2',
                      b'#.change: a=v,' + x + b'b=w',
                      b'#.change: a=v' + x + b' b=w',
                      b'#.change:' + x + b'a=v', b'#.change' + x + b' a=v',
                      b'#' + x + b'change: a=v', x + b'#.change: a=v',
                      b'#.chang' + x + b': a=v',
                      b'#.change: a=v, b=w' + x):
                one(h)
            for b2 in range(256):
                if b2 in skip:
                    continue
                y = bytes([b2])
                one(b'#.change: a=' + x + y)
                one(b'#.change: a' + x + y + b'=v')
        acc.sample({'byte_values': [unit[1], unit[2] - 1]}, 1)
    elif unit[0] == 'scale':
        from mc.alphabets import BOUNDARY_SIZES_Q
        for n in BOUNDARY_SIZES_Q + [9, 10, 11, 99, 100, 101]:
            v = b'a' * n
            for h in (b'#.change: k=' + v, b'#.change: ' + v + b'=v',
                      b'#.change: k=' + v + b'+', b'#.change: k=' + v + b' ',
                      b'#.change: k=' + b'9' * n, b'#.change: k=-' + b'9' * n,
                      b'#.change: k=' + b'9' * n + b'_',
                      b'#.change: ' + b', '.join(b'k%d=v%d' % (i, i)
                                                 for i in range(n // 8 + 1)),
                      b'#.change: ' + b', '.join(b'k%d=v%d' % (i, i)
                                                 for i in range(n // 8 + 1))
                      + b', ',
                      b'#.change: ' + b', '.join(b'k%d=v%d' % (i, i)
                                                 for i in range(n // 8 + 1))
                      + b',x=1',
                      b'#.change: a=1, ' + b'b=' + v + b', c=3'):
                one(h)
        for n in (5000, 200, 64, 40, 32, 28, 24, 16):
            run = (b'a1B2c3D4' * (n // 8 + 1))[:n]
            for bad in (b'+', b':', b'~', b'@', b'!', b'%', b'\xff', b' ',
                        b'=', b'[', b'`'):
                for tok in (run + bad, bad + run,
                            run[:n // 2] + bad + run[n // 2:]):
                    one(b'#.change: id=' + tok)
                    one(b'#.change: ' + tok + b'=v')
                    one(b'#.change: a=b, id=' + tok + b', c=d')
        acc.sample({'scale': 'option values / keys / counts of 9..65537'}, 1)
    elif unit[0] in ('crlf-chars', 'crlf-tokens'):
        # the same candidates inside a file whose header lines end in CRLF
        # (the candidate is followed by CR LF; a CR INSIDE it is not part of
        # the terminator)
        crlf = {'context': to_jsonable(PRE.replace(b'\n', b'\r\n')),
                'index': 1, 'nl': 'crlf'}
        kw = {'context': PRE.replace(b'\n', b'\r\n'), 'index': 1,
              'nl': b'\r\n'}
        if unit[0] == 'crlf-chars':
            pre = b'#.change:' + ALPHA[unit[1]]
            for n in range(0, 4):
                for t in itertools.product(ALPHA, repeat=n):
                    one(pre + b''.join(t), crlf, **kw)
            for hdr in (b'#.change:', b'#.change: a=b', b'#..file:',
                        b'#diffx: version=1.0'):
                for k in range(1, 4):
                    one(hdr + b'\r' * k, crlf, **kw)
        else:
            doms = token_domains(1)
            for vec in itertools.product(*doms):
                one(b'#.change:' + build_tokens(list(vec), 1), crlf, **kw)
        acc.sample({'crlf_header_context': True}, 1)
    elif unit[0] == 'late-invalid':
        # one invalid (or unusual) token at EVERY position of a header with
        # 1..9 options: validation does not stop after the first few
        bad = [b'g=x+y', b'5d=e', b'd.e=f', b'g=x=y', b'g=x:y', b'g=\xff',
               b'\xffg=1', b'g', b'g=', b'=1', b'g==1', b'g =1', b'g= 1',
               b'-g=1', b'g=a b', b'G_1-x=Az09/._-', b'g=-0', b'g=007']
        for n in range(1, 10):
            good = [b'k%d=v%d' % (i, i) for i in range(n)]
            for pos in range(n + 1):
                for tok in bad:
                    opts = good[:pos] + [tok] + good[pos:]
                    one(b'#.change: ' + b', '.join(opts))
                    if pos == n:
                        one(b'#.change: ' + b', '.join(opts[:-1]) + b',' +
                            tok)
        acc.sample({'late_invalid_tokens': 'positions 0..9'}, 1)
    elif unit[0] == 'tokens-stream':
        # the one-pair token product again, read through a buffered stream
        # / a real file (the grammar does not depend on the kind of stream)
        STREAM[0] = unit[1]
        try:
            doms = token_domains(1)
            for vec in itertools.product(*doms):
                one(b'#.change:' + build_tokens(list(vec), 1),
                    {'stream': unit[1]})
            for npairs in (2, 3):
                doms = token_domains(npairs)
                base = [d[0] for d in doms]
                for i, d in enumerate(doms):
                    for alt in d[1:]:
                        vec = list(base)
                        vec[i] = alt
                        one(b'#.change:' + build_tokens(vec, npairs),
                            {'stream': unit[1]})
        finally:
            STREAM[0] = 'bytesio'
        acc.sample({'stream_kind': unit[1]}, 1)
    elif unit[0] == 'line-start':
        # what may precede the "#": nothing. Every byte, every pair of
        # bytes, every codec's signature (BOM) and every triple / quadruple
        # over the bytes signatures are made of, before the first header of
        # the file and before a later header
        import codecs as _codecs
        sigs = set()
        for n in ('utf-8-sig', 'utf-16', 'utf-16-le', 'utf-16-be', 'utf-32',
                  'utf-32-le', 'utf-32-be', 'utf-7', 'gb18030', 'utf-1'):
            try:
                sigs.add('\ufeff'.encode(n))
                sigs.add(''.encode(n))
            except Exception:
                pass
        sigs |= {_codecs.BOM_UTF8, _codecs.BOM_UTF16_LE, _codecs.BOM_UTF16_BE,
                 _codecs.BOM_UTF32_LE, _codecs.BOM_UTF32_BE}
        sigs.discard(b'')
        pres = []
        for a in range(unit[1], unit[2]):
            pres.append(bytes([a]))
            for b in range(256):
                pres.append(bytes([a, b]))
        if unit[1] == 0:
            pres += sorted(sigs)
            sb = [0xEF, 0xBB, 0xBF, 0xFE, 0xFF, 0x00, 0x20, 0x09, 0x0D, 0x2B,
                  0x2F, 0x76]
            for t in itertools.product(sb, repeat=3):
                pres.append(bytes(t))
            for t in itertools.product([0xFF, 0xFE, 0x00, 0xEF], repeat=4):
                pres.append(bytes(t))
        for pre in pres:
            if b'\n' in pre:
                continue
            one(pre + b'#diffx: version=1.0',
                {'context': to_jsonable(b''), 'index': 0},
                context=b'', index=0)
            one(pre + b'#.change:')
            if len(pre) != 2:
                one(pre + b'#diffx: version=1.0',
                    {'context': to_jsonable(b'\n\n'), 'index': 0},
                    context=b'\n\n', index=0)
        acc.sample({'line_start_prefix': repr(pres[-1])}, 1)
    elif unit[0] == 'prefix':
        for hashes in (b'#', b'', b'##', b' #'):
            for dots in range(0, 5):
                for name in NAMES:
                    for colon in (b':', b'::', b'', b' :', b': '):
                        for opts in (b'', b' a=b', b' length=2'):
                            o2 = opts
                            if name == b'diffx' and dots == 0:
                                # the main header is only accepted with a
                                # supported version (not a grammar matter)
                                o2 = (opts + b', ' if opts else b' ') + \
                                    b'version=1.0'
                            h = hashes + b'.' * dots + name + colon + o2
                            # legal context for this id if there is one
                            sid = (b'.' * dots + name).decode()
                            ctx = CONTEXTS.get(sid)
                            if ctx is None or hashes != b'#' or \
                                    colon != b':':
                                # must be rejected wherever it is placed
                                exp = expected(h)
                                if exp is not None and ctx is None:
                                    continue    # C10 territory (illegal id)
                                one(h)
                            else:
                                context, idx, tail = ctx
                                if tail is None:
                                    continue    # content kinds: see contexts
                                one(h, {'context': to_jsonable(context),
                                        'index': idx},
                                    context=context, index=idx)
    else:
        # the same option strings on every legal header kind
        optstrs = [b'', b' x=1', b' x=1, y=a/b', b' x=1,y=2', b' x==1',
                   b' x+=1', b' x=a+b', b' x=1_0', b' x=/a', b' \xffx=1',
                   b' x=\xff', b'  x=1', b' x=1 ', b' x', b' x=', b' =1',
                   b' X-y_0=Az09/._-', b' x=1, x=2', b' x=-0', b' x=00',
                   b' a=b=c', b' a=b, ', b' a=b,', b', a=b']
        for sid, (context, idx, tail) in sorted(CONTEXTS.items()):
            for o in optstrs:
                if tail is None:
                    # content section: needs a valid length and body
                    body = b'a\n' if 'meta' not in sid else b'{"a": "x"}\n'
                    lo = b' length=%d' % len(body)
                    h = b'#' + sid.encode() + b':' + lo + \
                        (b',' + o if o.startswith(b' ') and o.strip()
                         else o)
                    one(h, {'context': to_jsonable(context), 'index': idx,
                            'tail': to_jsonable(body)},
                        context=context, index=idx, tail=body)
                else:
                    base = b'#' + sid.encode() + b':'
                    if sid == 'diffx':
                        h = base + b' version=1.0' + \
                            (b',' + o if o.startswith(b' ') and o.strip()
                             else o)
                    else:
                        h = base + o
                    one(h, {'context': to_jsonable(context), 'index': idx},
                        context=context, index=idx)
    return acc


def replay(payload):
    _IN_REPLAY[0] = True
    if payload.get('kind') == 'threads':
        from mc import wrgraph
        return [{'key': k, 'msg': m}
                for k, m in wrgraph.replay_threads(payload)]
    if payload.get('kind') != 'header':
        return []
    kw = {}
    if 'context' in payload:
        kw['context'] = from_jsonable(payload['context'])
        kw['index'] = payload['index']
    if 'tail' in payload:
        kw['tail'] = from_jsonable(payload['tail'])
    if payload.get('nl') == 'crlf':
        kw['nl'] = b'\r\n'
    STREAM[0] = payload.get('stream', 'bytesio')
    try:
        viols = check_header(from_jsonable(payload['header']), **kw)
    finally:
        STREAM[0] = 'bytesio'
    return [{'key': k, 'msg': m} for k, m in viols]
