"""C04 -- encoding inheritance follows nesting (state graph, DESIGN 2.1)."""
from mc import spec
from mc.explore import Acc
from mc.spec import to_jsonable, from_jsonable
from mc import wrgraph
from mc.wrgraph import Exec, scope_events, scope_graph, check_scope

ID = 'C04'
LEVEL = 'model_checking'

ROOTS_Q = ['utf-8', 'utf-16', 'latin-1']
ROOTS_T = ['utf-8', 'utf-16', 'latin-1', 'utf-32-be', 'utf-16-be']
ENCS_T = [None, 'utf-8', 'utf-16', 'utf-32-be', 'latin-1', 'utf-16-be',
          'utf-32', 'cp1252']


HIST_ENCS = [None, 'latin-1', 'utf-16']


def hist_events():
    ev = []
    for e in HIST_ENCS:
        ev.append(['change', e])
    for e in HIST_ENCS:
        ev.append(['file', e])
    ev.append(['preamble', wrgraph.PROBE_TEXT, None, 4, None, None])
    ev.append(['preamble', wrgraph.PROBE_TEXT, 'utf-16', 4, None, None])
    ev.append(['meta', wrgraph.PROBE_META, None])
    ev.append(['diff', b'a\n', None, None, None])
    ev.append(['diff', b'a', 'text', None, None])
    return ev


def hist_depth(tier):
    return 7 if tier == 'quick' else 9


def plan(tier):
    roots = ROOTS_Q if tier == 'quick' else ROOTS_T
    units = [('graph', r) for r in roots]
    # unmerged pass: every legal history (no state merging), split by the
    # first two events
    for r in (['utf-8', 'utf-16'] if tier == 'quick' else roots):
        evs = hist_events()
        for i, a in enumerate(evs):
            try:
                spec.track([a], r)
            except spec.Reject:
                continue
            for j, b in enumerate(evs):
                try:
                    spec.track([a, b], r)
                except spec.Reject:
                    continue
                units.append(('hist', r, i, j))
    for r in roots[:2]:
        units.append(('scale', r))
    units.append(('unusable-containers',))
    for r in roots:
        for part in range(HUGE_PARTS):
            units.append(('scale-huge', r, part, tier != 'quick'))
    return {
        'units': units,
        'rule': 'explicit-state BFS per main encoding: a state is the frozen '
                'vars() of a real DiffXWriter plus vars()/generator locals of '
                'a real DiffXReader suspended after the last record; events '
                'are new_change/new_file/write_preamble/write_meta with each '
                'of %d encoding choices (declare or omit) plus 3 diff probes; '
                'every transition replays its history on fresh objects and is '
                'checked three ways (writer vs declarative nearest-ancestor '
                'rule, reader on reference bytes incl. raw non-ASCII JSON, '
                'writer->reader). Non-trivial = transition whose history '
                'leaves a container that declared an encoding and then writes '
                'a section that omits one.'
                % (len(wrgraph.SCOPE_ENCODINGS) if tier == 'quick'
                   else len(ENCS_T)),
        'bound': 'depth <= %d; graph closure reported' % depth_for(tier),
        'exhaustive': True,
        'assumptions': [
            'codecs limited to the scope alphabet (C15 covers codec handling)',
            'state merging is on the full frozen implementation state; '
            'bytes already written/consumed are not part of the state '
            '(writer stream is append-only; reader line counter additive)',
        ],
    }


def depth_for(tier):
    return 9 if tier == 'quick' else 12


def nontrivial(calls):
    """History leaves a scope that declared an encoding, later section omits."""
    declared_closed = False
    open_decl = [None, None, None]
    for c in calls:
        if c[0] in ('change', 'file'):
            lvl = spec.LEVEL_OF[c[0]]
            for j in range(lvl, 3):
                if open_decl[j]:
                    declared_closed = True
                open_decl[j] = None
            open_decl[lvl] = c[1]
        elif declared_closed and c[0] in ('preamble', 'meta') and not c[2]:
            return True
    return False


def check_history(calls, root):
    ex = Exec(list(calls), root)
    ref_bytes, ref_recs = spec.serialize(list(calls), root)
    return check_scope(ex, ref_bytes, ref_recs), ex


def run_hist_unit(unit, tier):
    _, root, i, j = unit
    acc = Acc()
    evs = hist_events()
    D = hist_depth(tier)
    seen_states = set()

    def visit(calls):
        viols, ex = check_history(calls, root)
        acc.evals += 1
        acc.validated += 1
        acc.transitions += 1
        if nontrivial(calls):
            acc.nontrivial += 1
        for key, msg in viols:
            acc.violation(key, '%s\nhistory (main encoding %s): %r'
                          % (msg, root, calls),
                          {'kind': 'history', 'root': root,
                           'calls': to_jsonable(calls)})
        acc.outcome('ok' if not viols else 'violation')
        if len(calls) < D and not viols:
            prev, scope, d = spec.track(calls, root)
            kinds = spec.legal_kinds(prev, d)
            for e in evs:
                if e[0] in kinds:
                    visit(calls + [e])

    if i == 0 and j == 0:
        pass
    visit([evs[i], evs[j]])
    acc.states = acc.evals
    acc.sample({'root': root, 'unmerged_history_prefix': [evs[i], evs[j]]}, 1)
    return acc


HUGE_PARTS = 4

# encodings Python cannot use as text codecs (a name from another platform,
# a number, a bytes-to-bytes codec): on a CONTAINER they matter only if a
# section actually inherits them -- own encodings always win
UNUSABLE = ['x-ibm-943c', '1252', 'hex', 'no-such-codec']


def unusable_histories():
    out = []
    for bad in UNUSABLE:
        for own in ('utf-8', 'utf-16', 'latin-1'):
            out.append([['change', bad],
                        ['preamble', 'é own\n', own, 4, None, None],
                        ['meta', {'k': 'é'}, own],
                        ['file', None], ['meta', {'p': 'q'}, own],
                        ['diff', b'a\n', None, None, None],
                        ['file', bad], ['meta', {'p': 'r'}, own],
                        ['change', None],
                        ['preamble', 'inherits main é\n', None, 4, None,
                         None],
                        ['file', bad], ['meta', {'p': 's'}, own],
                        ['file', None], ['meta', {'p': 't'}, None]])
    return out


# metadata VALUES that name an encoding: they are data; a diff never
# inherits an encoding from anywhere, least of all from its sibling metadata
META_HINTS = [{'mimetype': 'text/plain; charset=utf-16'},
              {'mimetype': {'old': 'text/plain', 'new': 'text/x-c; '
                                                        'charset=utf-32'}},
              {'encoding': 'utf-16'}, {'charset': 'utf-32'},
              {'path': 'f', 'line_endings': 'dos', 'length': 1,
               'indent': 7, 'type': 'binary', 'format': 'yaml',
               'version': '2.0', 'mimetype': 'text/markdown;charset=cp037'}]


def hint_histories():
    out = []
    for hint in META_HINTS:
        out.append([['meta', hint, None], ['change', None],
                    ['meta', hint, None],
                    ['preamble', 'after é\n', None, 4, None, None][:0] or
                    ['file', None], ['meta', hint, None],
                    ['diff', b'-plain ascii\n+diff\n', None, None, None],
                    ['file', None], ['meta', hint, 'latin-1'],
                    ['diff', b'x\r\ny\r\n', None, None, None]])
    return out


def run_unusable_unit(tier):
    acc = Acc()
    for root in ('utf-8', 'utf-16'):
        for calls in unusable_histories() + hint_histories():
            viols, ex = check_history(calls, root)
            acc.evals += 1
            acc.states += 1
            acc.transitions += len(calls)
            acc.validated += 1
            acc.nontrivial += 1
            for k_, msg in viols:
                acc.violation(k_ + ':unusable-encoding-or-metadata-hint',
                              '%s\nhistory %r' % (str(msg)[:600],
                                                  [c[:3] for c in calls]),
                              {'kind': 'history', 'root': root,
                               'calls': to_jsonable(calls),
                               'suffix': ':unusable-encoding-or-metadata-hint'})
            acc.outcome('ok' if not viols else 'violation')
    acc.sample({'unusable_container_encodings': UNUSABLE}, 1)
    return acc


def _big_event(kind, enc, n):
    if kind == 'preamble':
        return ['preamble', ('é' + 'x' * 38 + '\n') * (n // 40), enc, 4,
                None, None]
    return ['meta', {'k': ['é' * 20] * (n // 130)}, enc]


def run_huge_unit(unit, tier):
    """Megabyte-sized preamble / metadata sections whose encoding is only
    INHERITED (own encoding None), from one state per distinct scope stack
    of the closed graph."""
    _, root, part, thorough = unit
    acc = Acc()
    g = scope_graph(root, scope_events(wrgraph.SCOPE_ENCODINGS), 9,
                    state_cap=400)
    reps = {}
    for key, hist in sorted(g['seen'].items(),
                            key=lambda kv: (len(kv[1]), repr(kv[1]))):
        calls0 = [list(c) for c in hist]
        prev, scope, d = spec.track(calls0, root)
        kinds = tuple(k for k in ('preamble', 'meta')
                      if k in spec.legal_kinds(prev, d))
        if kinds:
            reps.setdefault((tuple(scope[:d + 1]) if isinstance(
                scope, (list, tuple)) else repr(scope), kinds), calls0)
    items = sorted(reps.items(), key=repr)
    sizes = [1300000] + ([2600000, 5000000] if thorough else [])
    encs = [None] + (['latin-1', 'utf-16'] if thorough else [])
    for idx, ((sc, kinds), calls0) in enumerate(items):
        if idx % HUGE_PARTS != part:
            continue
        for kind in kinds:
            for enc in encs:
                for n in sizes:
                    calls = calls0 + [_big_event(kind, enc, n)]
                    viols, ex = check_history(calls, root)
                    acc.evals += 1
                    acc.transitions += 1
                    acc.validated += 1
                    acc.nontrivial += 1
                    for k_, msg in viols:
                        acc.violation(k_ + ':scale', '%s\nhistory %r + %d-'
                                      'byte %s with encoding %r'
                                      % (msg[:600], [c[:2] for c in calls0],
                                         n, kind, enc),
                                      {'kind': 'scale', 'root': root,
                                       'hist': to_jsonable(calls0),
                                       'skind': kind, 'enc': enc, 'n': n})
                    acc.outcome('ok' if not viols else 'violation')
    acc.states = len(items)
    acc.sample({'scale': 'megabyte sections with inherited encoding from '
                         '%d distinct scope stacks' % len(items),
                'root': root}, 1)
    return acc


def run_scale_unit(unit, tier):
    """From every canonical state of the closed graph: a LARGE preamble /
    metadata section (around the 1024 / 8192 / 65536 thresholds) with each
    encoding choice, own or inherited."""
    root = unit[1]
    acc = Acc()
    g = scope_graph(root, scope_events(wrgraph.SCOPE_ENCODINGS), 9,
                    state_cap=400)
    sizes = [1100, 8300, 66000]
    for key, hist in sorted(g['seen'].items(), key=lambda kv: repr(kv[1])):
        calls0 = [list(c) for c in hist]
        prev, scope, d = spec.track(calls0, root)
        kinds = spec.legal_kinds(prev, d)
        for kind in ('preamble', 'meta'):
            if kind not in kinds:
                continue
            for enc in wrgraph.SCOPE_ENCODINGS:
                for n in sizes:
                    if kind == 'preamble':
                        ev = ['preamble', ('é' + 'x' * 38 + '\n') * (n // 40),
                              enc, 4, None, None]
                    else:
                        ev = ['meta', {'k': ['é' * 20] * (n // 130)}, enc]
                    calls = calls0 + [ev]
                    viols, ex = check_history(calls, root)
                    acc.evals += 1
                    acc.transitions += 1
                    acc.validated += 1
                    acc.nontrivial += 1
                    for k_, msg in viols:
                        acc.violation(k_ + ':scale', '%s\nhistory %r + %d-'
                                      'byte %s with encoding %r'
                                      % (msg[:600], [c[:2] for c in calls0],
                                         n, kind, enc),
                                      {'kind': 'scale', 'root': root,
                                       'hist': to_jsonable(calls0),
                                       'skind': kind, 'enc': enc, 'n': n})
                    acc.outcome('ok' if not viols else 'violation')
    acc.states = len(g['seen'])
    acc.sample({'scale': 'large sections from every canonical state',
                'root': root}, 1)
    return acc


def run_unit(unit, tier):
    if unit[0] == 'unusable-containers':
        return run_unusable_unit(tier)
    if unit[0] == 'scale-huge':
        return run_huge_unit(unit, tier)
    if unit[0] == 'scale':
        return run_scale_unit(unit, tier)
    if unit[0] == 'hist':
        return run_hist_unit(unit, tier)
    root = unit[1]
    acc = Acc()
    events = scope_events(wrgraph.SCOPE_ENCODINGS if tier == 'quick'
                          else ENCS_T)
    seen_nt = set()

    def on_exec(ex):
        calls = ex.calls
        ref_bytes, ref_recs = spec.serialize(calls, root)
        viols = check_scope(ex, ref_bytes, ref_recs)
        acc.evals += 1
        acc.validated += 1
        if nontrivial(calls):
            acc.nontrivial += 1
        for key, msg in viols:
            acc.violation(key, '%s\nhistory (main encoding %s): %r'
                          % (msg, root, calls),
                          {'kind': 'history', 'root': root,
                           'calls': to_jsonable(calls)})
        acc.outcome('ok' if not viols else 'violation')

    g = scope_graph(root, events, depth_for(tier),
                    state_cap=4000 if tier == 'quick' else 40000,
                    on_exec=on_exec)
    acc.states = len(g['seen'])
    acc.transitions = g['transitions']
    consistent = all(len(v) == 1 for v in g['model_map'].values())
    acc.extra = {
        'closed': bool(g['closed'] and not g['capped']),
        'model_state_consistent': consistent,
        'model_states': len(g['model_map']),
        'max_depth': 0,
    }
    if g['globals_changed']:
        acc.violation('module-globals-mutated',
                      'a module-level table changed during exploration',
                      {'kind': 'none'})
    if not acc.extra['closed']:
        acc.cap_hit = True
    hs = sorted(g['seen'].values(), key=len)
    acc.sample({'root': root, 'history': [list(c) for c in hs[-1]][:8]}
               if hs else {})
    return acc


def replay(payload):
    if payload.get('kind') == 'scale':
        n, enc = payload['n'], payload['enc']
        ev = _big_event(payload['skind'], enc, n)
        viols, ex = check_history(from_jsonable(payload['hist']) + [ev],
                                  payload['root'])
        return [{'key': k + ':scale', 'msg': m} for k, m in viols]
    if payload.get('kind') != 'history':
        return []
    calls = from_jsonable(payload['calls'])
    viols, ex = check_history(calls, payload['root'])
    suf = payload.get('suffix', '')
    return [{'key': (k + suf).replace(' ', '_')[:200], 'msg': m}
            for k, m in viols]
