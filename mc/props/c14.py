"""C14 -- unified-diff hunk parser: exact geometry or a positioned error."""
import itertools
import re

from pydiffx.errors import MalformedHunkError
from pydiffx.utils.unified_diffs import get_unified_diff_hunks

from mc.explore import Acc, deviations
from mc.observe import site_of
from mc.spec import to_jsonable, from_jsonable

ID = 'C14'
LEVEL = 'model_checking'

MARK = b'\\ No newline at end of file'
HDR = re.compile(rb'@@ -(\d+)(?:,(\d+))? \+(\d+)(?:,(\d+))? @@(?: (.*))?')


# ------------------------------------------------------------- reference

def tokenise(line):
    if line.startswith(b'@@'):
        m = HDR.fullmatch(line)
        if m:
            return ('H', m)
        return ('X', None)
    if line.startswith(b'-'):
        return ('D', None)
    if line.startswith(b'+'):
        return ('I', None)
    if line.startswith(b' '):
        return ('C', None)
    if line.strip() == MARK:
        return ('M', None)
    return ('X', None)


def geometry(m, body):
    """Hunk entry from the header match and the list of body tokens."""
    def side(start, count, own):
        start0 = int(start) - 1
        n = int(count) if count is not None else 1
        pos = 0
        first = last = None
        changed = 0
        for t in body:
            if t == own:
                if first is None:
                    first = start0 + pos
                last = start0 + pos
                changed += 1
                pos += 1
            elif t == 'C':
                pos += 1
        return {'first_changed_line': first, 'last_changed_line': last,
                'num_lines': n, 'num_lines_changed': changed,
                'start_line': start0}
    o = side(m.group(1), m.group(2), 'D')
    n = side(m.group(3), m.group(4), 'I')
    pre = [s['first_changed_line'] - s['start_line'] for s in (o, n)
           if s['first_changed_line'] is not None]
    post = [s['num_lines'] - (s['last_changed_line'] - s['start_line'] + 1)
            for s in (o, n) if s['last_changed_line'] is not None]
    return {'context': m.group(5), 'orig': o, 'modified': n,
            'lines_of_context_pre': min(pre) if pre else 0,
            'lines_of_context_post': min(post) if post else 0}


def reference(lines, ignore_garbage):
    """Strict reading. Returns one of
       ('ok', result dict)
       ('error', line, line_num, cls)  cls in ends-early/bad-line/interrupted
       ('undefined', why)              input the statement does not cover"""
    toks = [tokenise(l) for l in lines]
    hunks = []
    ins = dels = 0
    i = 0
    n = len(lines)
    while i < n:
        t, m = toks[i]
        if t != 'H':
            if ignore_garbage:
                i += 1
                continue
            return ('ok', _result(hunks, i, dels, ins))
        want_o = int(m.group(2)) if m.group(2) is not None else 1
        want_n = int(m.group(4)) if m.group(4) is not None else 1
        got_o = got_n = 0
        body = []
        j = i + 1
        while got_o < want_o or got_n < want_n:
            if j >= n:
                return ('error', lines[-1], n, 'ends-early')
            bt, bm = toks[j]
            if bt == 'H':
                return ('error', lines[j], j + 1, 'interrupted')
            if bt == 'X':
                return ('error', lines[j], j + 1, 'bad-line')
            if bt == 'C':
                if got_o >= want_o or got_n >= want_n:
                    return ('undefined', 'context line beyond a full side')
                got_o += 1
                got_n += 1
            elif bt == 'D':
                if got_o >= want_o:
                    return ('undefined', 'delete beyond the declared count')
                got_o += 1
                dels += 1
            elif bt == 'I':
                if got_n >= want_n:
                    return ('undefined', 'insert beyond the declared count')
                got_n += 1
                ins += 1
            body.append(bt)
            j += 1
        hunks.append(geometry(m, body))
        i = j
    return ('ok', _result(hunks, n, dels, ins))


def _result(hunks, processed, dels, ins):
    return {'hunks': hunks, 'num_processed_lines': processed,
            'total_deletes': dels, 'total_inserts': ins}


def check_one(lines, ig):
    """Returns (violations, class)."""
    ref = reference(lines, ig)
    try:
        got = get_unified_diff_hunks(list(lines), ignore_garbage=ig)
        exc = None
    except MalformedHunkError as e:
        got, exc = None, e
    except Exception as e:
        return [('other-exception:%s:%s' % (type(e).__name__, site_of(e)),
                 '%r (ignore_garbage=%r) raised %r' % (lines, ig, e))], \
            'exception'
    v = []
    if ref[0] == 'ok':
        if exc is not None:
            v.append(('wellformed-rejected', '%r (ig=%r) raised %s'
                      % (lines, ig, exc)))
        elif got != ref[1]:
            bad = sorted(k for k in set(got) | set(ref[1])
                         if got.get(k) != ref[1].get(k))
            sub = ''
            if 'hunks' in bad and len(got.get('hunks', [])) == \
                    len(ref[1]['hunks']):
                for a, b in zip(got['hunks'], ref[1]['hunks']):
                    if a != b:
                        sub = ':' + ','.join(sorted(
                            k for k in set(a) | set(b)
                            if a.get(k) != b.get(k)))
                        break
            v.append(('geometry:%s%s' % (','.join(bad), sub),
                      '%r (ig=%r)\n got      %r\n expected %r'
                      % (lines, ig, got, ref[1])))
    elif ref[0] == 'error':
        _, line, num, cls = ref
        if exc is None:
            v.append(('damage-accepted:%s' % cls, '%r (ig=%r) returned %r'
                      % (lines, ig, got)))
        elif exc.line != line or exc.line_num != num:
            v.append(('error-position:%s' % cls,
                      '%r (ig=%r): error names line %r #%r, expected %r #%r'
                      % (lines, ig, exc.line, exc.line_num, line, num)))
    return v, ref[0] if ref[0] != 'error' else ref[3]


# ------------------------------------------------------------- generators

BODY_TOK = 'CDI'
PAYLOADS = [b'x', b'- y', b'+ z', b'@@ -1 +1 @@', b'']
CONTEXTS = [None, b'def f():', b'@@ x @@', b'']
STARTS = [1, 0, 5]
GARBAGE = [None, b'diff --git a/f b/f', b'--- a/f', b'+++ b/f',
           b'index 1..2 100644', b'', b'Only in x: y', b'@@ junk',
           MARK, b'+junk', b'-junk', b' ctx', b'@@ -1 +1 @@x',
           b'@@ -1, +1 @@']


def render_count(n, explicit):
    if n == 1 and not explicit:
        return b''
    return b',%d' % n


def build_hunk(body, marker_pos, so, sn, explicit, ctx, payload):
    """Lines of one hunk with known geometry."""
    no = sum(1 for t in body if t in 'CD')
    nn = sum(1 for t in body if t in 'CI')
    h = b'@@ -%d%s +%d%s @@' % (so, render_count(no, explicit),
                                sn, render_count(nn, explicit))
    if ctx is not None:
        h += b' ' + ctx
    lines = [h]
    pre = {'C': b' ', 'D': b'-', 'I': b'+'}
    for i, t in enumerate(body):
        lines.append(pre[t] + payload)
        if marker_pos == i:
            lines.append(MARK)
    return lines


def bodies(maxlen):
    for n in range(0, maxlen + 1):
        for t in itertools.product(BODY_TOK, repeat=n):
            yield ''.join(t)


DIFF_ALPHA = [b'@@ -1 +1 @@', b'@@ -1,2 +1,2 @@', b'@@ -1,0 +1 @@',
              b'@@ -0,0 +1,2 @@ ctx', b'@@ junk', b' c', b'-d', b'+i', MARK,
              b'', b'garbage', b'--- a', b'+++ b', b'@@ -1,2 +1 @@']


def plan(tier):
    units = []
    L = 4 if tier == 'quick' else 5
    blist = list(bodies(L))
    # (a1) single hunk: body x marker position x attribute deviations
    for chunk in range(0, len(blist), 20):
        units.append(('one', chunk, min(chunk + 20, len(blist))))
    # (a2) two hunks: body1 x body2 x separator x ignore_garbage
    b2 = list(bodies(3 if tier == 'quick' else 4))
    for i in range(0, len(b2), 4):
        units.append(('two', i, min(i + 4, len(b2))))
    if tier == 'thorough':
        b3 = list(bodies(2))
        for i in range(len(b3)):
            units.append(('three', i))
    # (a3) single-point damage
    for i in range(0, len(b2), 8):
        units.append(('damage', i, min(i + 8, len(b2))))
    # (b) differential over a 14-line alphabet
    DL = 5 if tier == 'quick' else 6
    for a in range(len(DIFF_ALPHA)):
        for b in range(len(DIFF_ALPHA)):
            units.append(('diff', a, b, DL))
    units.append(('diff-short',))
    units.append(('scale',))
    return {
        'units': units,
        'rule': '(a) constructive: 1-%d hunks; body = every sequence over '
                '{context, delete, insert} of length 0..%d with a "No '
                'newline" marker at every position; start lines {0,1,5}; '
                'counts explicit or omitted-when-1; 4 header contexts; 5 '
                'payloads incl. look-alikes; 14 separators/lead-ins; '
                'ignore_garbage both ways; every single-point damage '
                '(delete / replace by garbage, empty, header / truncate / '
                'header counts off by -1..+50); '
                '(b) every list of <= %d lines over a 14-line alphabet. '
                'Oracle: independent strict reference (tokenise, strict '
                'counting, post-hoc geometry): equal dict for well-formed '
                'input, MalformedHunkError naming the reference line for the '
                'three damage classes, never another exception type; inputs '
                'the statement does not cover (over-long bodies) only get '
                'the exception-type check. Non-trivial: zero-length side, '
                'marker, look-alike payload or damage.'
                % (2 if tier == 'quick' else 3, L, DL),
        'bound': 'body length <= %d, <= %d hunks, lists <= %d lines'
                 % (L, 2 if tier == 'quick' else 3, DL),
        'exhaustive': True,
        'assumptions': ['lines are given without terminators, as '
                        'split_lines(keep_ends=False) produces them'],
    }



def OPT_UNITS(tier):
    """Units repeated in an interpreter started with -O (validation must
    not live in assert statements or __debug__ blocks)."""
    us = plan(tier)['units']
    keep = []
    for kind, n in [('one', 7), ('two', 2), ('damage', 5), ('diff-short', 1), ('diff', 10)]:
        keep += [u for u in us if str(u[0]) == kind][:n]
    return keep


def run_unit(unit, tier):
    acc = Acc()

    def one(lines, ig, nt):
        viols, cls = check_one(lines, ig)
        acc.evals += 1
        acc.states += 1
        acc.transitions += 1
        acc.validated += 1
        if nt or cls not in ('ok',):
            acc.nontrivial += 1
        for key, msg in viols:
            acc.violation(key, msg, {'kind': 'lines',
                                     'lines': to_jsonable(list(lines)),
                                     'ig': ig})
        acc.outcome(cls if not viols else 'violation')

    L = 4 if tier == 'quick' else 5
    if unit[0] == 'one':
        blist = list(bodies(L))[unit[1]:unit[2]]
        doms = [STARTS, STARTS, [False, True], CONTEXTS, PAYLOADS, GARBAGE,
                GARBAGE, [False, True]]
        for body in blist:
            for mp in [None] + list(range(len(body))):
                for vec, r in deviations(doms, 2):
                    so, sn, ex, ctx, pay, lead, trail, ig = vec
                    lines = build_hunk(body, mp, so, sn, ex, ctx, pay)
                    if lead is not None:
                        lines = [lead] + lines
                    if trail is not None:
                        lines = lines + [trail]
                    nt = (mp is not None or 'C' not in body or
                          not ('D' in body and 'I' in body) or r > 0)
                    one(lines, ig, nt)
        acc.sample({'hunk': [l.decode() for l in
                             build_hunk('CDI', 1, 1, 5, False, None, b'x')]},
                   1)
    elif unit[0] in ('two', 'three'):
        nb = 3 if tier == 'quick' else 4
        if unit[0] == 'two':
            b2 = list(bodies(nb))
            firsts = b2[unit[1]:unit[2]]
            combos = ((a, b) for a in firsts for b in b2)
        else:
            b3 = list(bodies(2))
            combos = ((b3[unit[1]], b, c) for b in b3 for c in b3)
        for combo in combos:
            for sep in GARBAGE:
                for ig in (False, True):
                    for mp in (None, 0):
                        lines = []
                        for hi, body in enumerate(combo):
                            if hi and sep is not None:
                                lines.append(sep)
                            lines += build_hunk(
                                body, mp if (hi == 0 and body) else None,
                                1 + 10 * hi, 1 + 10 * hi, hi == 1,
                                None, b'x')
                        one(lines, ig, True)
        acc.sample({'bodies_of_first_hunk_slice': unit[1:]}, 1)
    elif unit[0] == 'damage':
        b2 = list(bodies(3 if tier == 'quick' else 4))[unit[1]:unit[2]]
        repl = [b'garbage', b'', b'@@ -9 +9 @@', b'@@ junk', MARK + b' \r']
        for body in b2:
            for body2 in ('', 'C', 'DI'):
                base = build_hunk(body, None, 1, 1, False, None, b'x')
                if body2:
                    base += build_hunk(body2, None, 20, 20, True, b'f', b'x')
                for ig in (False, True):
                    for i in range(len(base)):
                        one(base[:i] + base[i + 1:], ig, True)   # delete
                        one(base[:i], ig, True)                  # truncate
                        for rline in repl:
                            one(base[:i] + [rline] + base[i + 1:], ig, True)
                            one(base[:i] + [rline] + base[i:], ig, True)
                        # a header whose counts are off by a little / a lot
                        # (a hand-edited patch), with garbage or a second
                        # hunk after the hunk
                        m = HDR.fullmatch(base[i])
                        if m is None:
                            continue
                        co = int(m.group(2)) if m.group(2) is not None else 1
                        cn = int(m.group(4)) if m.group(4) is not None else 1
                        for do, dn in ((1, 0), (0, 1), (1, 1), (2, 2), (50, 50),
                                       (-1, 0), (0, -1), (-1, -1), (3, 0)):
                            if co + do < 0 or cn + dn < 0:
                                continue
                            h2 = b'@@ -%s,%d +%s,%d @@' % (
                                m.group(1), co + do, m.group(3), cn + dn)
                            if m.group(5) is not None:
                                h2 += b' ' + m.group(5)
                            for tail in ([], [b'garbage', b'more'],
                                         [b' c', b'garbage', b' c', b' c']):
                                one(base[:i] + [h2] + base[i + 1:] + tail,
                                    ig, True)
        acc.sample({'damage_of_bodies': b2[:3]}, 1)
    elif unit[0] == 'diff':
        _, a, b, DL = unit
        pre = [DIFF_ALPHA[a], DIFF_ALPHA[b]]
        for n in range(0, DL - 1):
            for t in itertools.product(DIFF_ALPHA, repeat=n):
                lines = pre + list(t)
                for ig in (False, True):
                    one(lines, ig, False)
        acc.sample({'prefix': [x.decode() for x in pre]}, 1)
    elif unit[0] == 'scale':
        # many hunks, long bodies, large line numbers and counts
        for nh in (1, 9, 10, 11, 99, 100, 101, 1000, 3000):
            for body in ('DI', 'CDIC', 'D', 'I'):
                for ig in (False, True):
                    lines = []
                    for h in range(nh):
                        if ig and h % 7 == 3:
                            lines.append(b'--- garbage between hunks')
                        lines += build_hunk(body, 0 if h % 5 == 0 else None,
                                            1 + 10 * h, 1 + 11 * h, h % 2,
                                            None, b'x')
                    if ig:
                        lines += [b'-- ', b'2.39.0', b'']
                    one(lines, ig, True)
        for blen in (9, 10, 11, 99, 100, 101, 1000, 10000):
            for tok in ('D', 'I', 'C'):
                body = (tok * blen)
                for so in (1, 999999, 1000000, 2 ** 31, 2 ** 63):
                    one(build_hunk(body, blen - 1, so, so + 1, True, b'f',
                                   b'y'), False, True)
                    mixed = ('CDI' * blen)[:blen]
                    one(build_hunk(mixed, None, so, so, False, None, b'y') +
                        [b'tail'], True, True)
        # every byte value as (first byte of) a line payload, and UTF-16/32
        # shaped payloads: the parser looks at the first byte only
        for b in range(256):
            if b in (0x0A,):
                continue
            for pl in (bytes([b]), b'w' + bytes([b]) + b'z',
                       bytes([b]) * 3):
                for ig in (False, True):
                    one(build_hunk('CDIC', None, 3, 3, True, None, pl), ig,
                        True)
        # payloads that are themselves structural lines (a diff of a patch
        # file): the first byte of the line decides, nothing else
        for pl in (b'', b'\x00x\x00', b'x\x00\x00\x00', b'\xe2\x80\xa8',
                   b'\xc2\x85', b'\xff\xfe', b'@@ -1 +1 @@', b'-- a', b'++ b',
                   MARK, MARK[1:], b' ' + MARK, MARK + b' ',
                   b'\\ No newline', b'@@ -1,2 +1,2 @@ ctx', b'--- a/f',
                   b'+++ b/f', b'diff --git a/f b/f', b'Binary files differ',
                   b' ', b'  ', b'\t', b'-', b'+', b'\\'):
            for body in ('CDIIC', 'C', 'D', 'I', 'CC', 'DI'):
                for ig in (False, True):
                    one(build_hunk(body, None, 3, 3, True, None, pl), ig,
                        True)
                    one(build_hunk(body, len(body) - 1, 3, 3, False, b'ctx',
                                   pl) + build_hunk('DI', None, 40, 40, True,
                                                    None, b'x'), ig, True)
        # every byte value as the FIRST byte of a line inside an unfinished
        # hunk (only blank, "-", "+" and the marker's backslash mean
        # something there) and of a line between / after hunks
        for b in range(256):
            if b == 0x0A:
                continue
            for rest in (b'', b'x', b' x'):
                ln = bytes([b]) + rest
                for ig in (False, True):
                    one([b'@@ -1,2 +1,2 @@', b' c', ln, b'-a', b'+b'], ig,
                        True)
                    one([b'@@ -1 +1 @@', ln], ig, True)
                    one([b'@@ -1 +1 @@', b'-a', b'+b', ln,
                         b'@@ -5 +5 @@', b'-c', b'+d'], ig, True)
        # every byte value in the header's context text (function names in
        # latin-1 / Shift-JIS sources, invalid UTF-8, NUL)
        for b in range(256):
            if b in (0x0A,):
                continue
            for ctx in (bytes([b]), b'def f' + bytes([b]) + b'():',
                        bytes([b]) * 2 + b' x'):
                one(build_hunk('CDIC', None, 3, 3, True, ctx, b'x'), False,
                    True)
                one(build_hunk('DI', None, 3, 3, False, ctx, b'x')[:-1],
                    True, True)       # damaged hunk with that context
        from mc.alphabets import BOUNDARY_SIZES_Q
        # bodies at buffer-boundary and larger line counts (lock files,
        # generated sources): one-sided, context-only and mixed hunks
        big = [12000, 20000, 50000, 100000]
        if tier != 'quick':
            big += [300000, 1000000]
        for blen in BOUNDARY_SIZES_Q + big:
            for tok in ('D', 'I', 'C', 'CDI', 'CCCDICCC'):
                body = (tok * blen)[:blen]
                for explicit in (True, False):
                    one(build_hunk(body, None, 1 if tok != 'I' else 0,
                                   1 if tok != 'D' else 0, explicit, None,
                                   b'z'), False, True)
                one(build_hunk(body, blen - 1, 7, 9, True, None, b'z') +
                    [b'@@ -%d,1 +%d,1 @@' % (blen + 100, blen + 100),
                     b' after'], True, True)
        for n in BOUNDARY_SIZES_Q + [100000]:
            long_ = b'y' * n
            for ig in (False, True):
                # long payloads in a well-formed hunk
                one([b'@@ -1,2 +1,2 @@ ' + long_, b' ' + long_, b'-' + long_,
                     b'+' + long_], ig, True)
                # the offending line is long: bad line, premature end,
                # interrupting header, garbage before / after
                one([b'@@ -10,3 +10,3 @@', b' ctx', b'-old', long_], ig, True)
                one([b'@@ -10,3 +10,3 @@', b' ctx', b'-old', b'+' + long_],
                    ig, True)
                one([b'@@ -10,3 +10,3 @@', b' ctx',
                     b'@@ -20 +20 @@ ' + long_], ig, True)
                one([long_, b'@@ -1 +1 @@', b'-a', b'+b', long_], ig, True)
        acc.sample({'scale': 'up to 3000 hunks, bodies up to 100000 (thorough 1000000) '
                             'lines at every boundary size, '
                             'start lines up to 2**63'}, 1)
    else:
        for n in (0, 1):
            for t in itertools.product(DIFF_ALPHA, repeat=n):
                for ig in (False, True):
                    one(list(t), ig, n == 0)
    return acc


def replay(payload):
    if payload.get('kind') != 'lines':
        return []
    viols, cls = check_one(from_jsonable(payload['lines']), payload['ig'])
    return [{'key': k.replace(' ', '_')[:200], 'msg': m} for k, m in viols]
