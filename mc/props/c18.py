"""C18 -- object-model instances are isolated; observers do not mutate."""
import io
import itertools

from pydiffx.dom import DiffX
from pydiffx.dom.reader import DiffXDOMReader
from pydiffx.dom.writer import DiffXDOMWriter

from mc import spec
from mc.domsnap import snap, fsnap, aliasing, SAMPLE_DIFF
from mc.explore import Acc, freeze
from mc.observe import module_globals_snapshot, site_of

ID = 'C18'
LEVEL = 'model_checking'

FILE_A, _ = spec.serialize([
    ['preamble', 'top\n', None, 4, None, None],
    ['meta', {'k': ['v'], 'stats': {'custom': 1}}, None],
    ['change', 'latin-1'], ['preamble', 'c1\n', None, 2, 'unix', None],
    ['meta', {'id': 'abc'}, None], ['file', None],
    ['meta', {'path': 'f'}, None], ['diff', SAMPLE_DIFF, None, None, None],
], 'utf-8')
FILE_B, _ = spec.serialize([
    ['change', None], ['file', 'utf-16'], ['meta', {'path': 'g'}, None],
    ['file', None], ['meta', {'path': 'h', 'l': [1, 2]}, None],
    ['diff', b'x\r\n', 'binary', None, 'dos'],
], 'utf-16')
# a foreign file whose content headers carry nothing but the length
FILE_C = (b'#diffx: encoding=utf-8, version=1.0\n'
          b'#.preamble: length=4\nabc\n'
          b'#.meta: length=11\n{"a": "x"}\n'
          b'#.change:\n#..preamble: length=2\nc\n'
          b'#..file:\n#...meta: length=11\n{"p": "q"}\n'
          b'#...diff: length=2\na\n'
          b'#..file:\n#...meta: length=11\n{"p": "r"}\n'
          b'#...diff: length=2\nb\n')
# a foreign file in which every content header carries an option the library does
# not know (the object-model writer cannot serialise it: to_bytes raises,
# and must leave the tree alone)
FILE_D = (b'#diffx: encoding=utf-8, version=1.0\n'
          b'#.preamble: indent=2, length=6, line_endings=unix, x-lang=en\n'
          b'  abc\n'
          b'#.meta: format=json, length=11, x-m=1\n{"a": "x"}\n'
          b'#.change:\n#..preamble: length=2, x-lang=fr\nc\n'
          b'#..file:\n#...meta: length=11\n{"p": "q"}\n'
          b'#...diff: length=2, x-d=4\na\n')
FILES = [FILE_A, FILE_B, FILE_C, FILE_D]

NSLOTS = 3


class World(object):
    def __init__(self):
        self.trees = [None] * NSLOTS
        self.reader = DiffXDOMReader(DiffX)
        self.writer = DiffXDOMWriter()
        self.out = {}            # observations of the last op


def _last_change(t):
    return t.changes[-1] if t is not None and t.changes else None


def _last_file(t):
    c = _last_change(t)
    return c.files[-1] if c is not None and c.files else None


# op = (name, slot, arg). kind: 'create' (replaces slot), 'mutate' (target
# changes), 'observe' (nothing may change)
def ops_for(nslots):
    ops = []
    for i in range(nslots):
        ops += [
            ('new', i, None), ('new-attrs', i, None),
            ('parse', i, 0), ('parse', i, 1), ('parse', i, 2),
            ('parse', i, 3), ('mut-unknown-options', i, None),
            ('mut-meta-intkeys', i, None), ('mut-meta-foreign', i, None),
            ('copy-sections', i, None),
            ('add-change', i, None), ('add-change-attrs', i, None),
            ('add-file', i, None), ('add-file-big', i, None),
            ('mut-meta', i, None), ('mut-meta-nested', i, None),
            ('mut-options', i, None), ('mut-file-meta', i, None),
            ('mut-content-options', i, None),
            ('set-preamble', i, None), ('set-diff', i, None),
            ('set-diff-type', i, None),
            ('stats', i, None),
            ('to-bytes', i, None), ('write-shared', i, None),
            ('repr', i, None), ('iterate', i, None),
        ]
    for i in range(nslots):
        for j in range(nslots):
            if i != j:
                ops.append(('eq', i, j))
    return ops


class PathLikeValue(object):
    """os.PathLike without caches (pathlib objects memoise str / hash)."""
    def __init__(self, p):
        self.p = p

    def __fspath__(self):
        return self.p

    def __eq__(self, other):
        return type(other) is PathLikeValue and other.p == self.p

    def __hash__(self):
        return hash(self.p)


OBSERVERS = {'to-bytes', 'write-shared', 'repr', 'iterate', 'eq',
             'copy-sections'}


def _edit_deep(o):
    if isinstance(o, dict):
        for k in list(o):
            _edit_deep(o[k])
        o['edited-in-copy'] = 1
    elif isinstance(o, list):
        for x in o:
            _edit_deep(x)
        o.append('edited-in-copy')


def enabled(world, op):
    name, i, arg = op
    t = world.trees[i]
    if name in ('new', 'new-attrs', 'parse'):
        return True
    if t is None:
        return False
    if name == 'eq':
        return world.trees[arg] is not None
    if name in ('add-file', 'add-file-big'):
        return _last_change(t) is not None
    if name in ('mut-file-meta', 'set-diff', 'set-diff-type'):
        return _last_file(t) is not None
    if name == 'mut-meta-nested':
        return isinstance(t.meta.get('k'), list)
    return True


def apply(world, op):
    """Executes one op on the real objects. Returns observation."""
    name, i, arg = op
    t = world.trees[i]
    if name == 'new':
        world.trees[i] = DiffX()
    elif name == 'new-attrs':
        world.trees[i] = DiffX(preamble='p\n', meta={'k': ['v']},
                               encoding='utf-16', preamble_indent=2)
    elif name == 'parse':
        world.trees[i] = world.reader.parse(io.BytesIO(FILES[arg]))
    elif name == 'add-change':
        t.add_change()
    elif name == 'add-change-attrs':
        t.add_change(preamble='c\n', meta={'id': 'x', 'l': [1]},
                     encoding='latin-1')
    elif name == 'add-file':
        _last_change(t).add_file(meta={'path': 'p', 'n': {'a': []}},
                                 diff=SAMPLE_DIFF, diff_type='text')
    elif name == 'add-file-big':
        # equal (not identical) large diffs in every tree that gets one
        # (arg = number of hunks; default ~70 KB)
        big = ('\n'.join('@@ -%d +%d @@\n-o%d\n+n%d' % (k, k, k, k)
                         for k in range(1, (arg or 3300))) + '\n').encode(
                             'ascii')
        _last_change(t).add_file(meta={'path': 'big'}, diff=big)
    elif name == 'mut-meta':
        t.meta['x'] = 'y'
    elif name == 'mut-meta-nested':
        t.meta['k'].append('w')
    elif name == 'copy-sections':
        # copy.deepcopy of the sections that support it (file, meta and
        # preamble sections); the copies are then edited at every depth and
        # analysed: an observer of the tree as far as the tree is concerned
        import copy as _copy
        targets = [t.meta_section, t.preamble_section]
        if _last_file(t) is not None:
            targets += [_last_file(t), _last_file(t).meta_section]
        if _last_change(t) is not None:
            targets.append(_last_change(t).meta_section)
        for sec in targets:
            try:
                c = _copy.deepcopy(sec)
            except Exception:
                continue
            m = getattr(c, 'meta', None)
            if m is None and isinstance(getattr(c, '_content', None), dict):
                m = c._content
            if isinstance(m, dict):
                _edit_deep(m)
                m['copied'] = True
            try:
                c.options['copied'] = 1
                if hasattr(c, 'generate_stats'):
                    c.generate_stats()
            except Exception:
                pass
        return ('copied', len(targets))
    elif name == 'mut-meta-foreign':
        # values of types JSON does not know (a path object, a decimal, a
        # date, a set, bytes): serialising such a tree may fail, but whether
        # it fails or not the tree keeps the caller's objects
        import datetime
        import decimal
        t.meta['p'] = {'path': PathLikeValue('a/b'),
                       'l': [PathLikeValue('c'), decimal.Decimal('1.5')]}
        if _last_file(t) is not None:
            _last_file(t).meta['when'] = datetime.date(2021, 6, 1)
            _last_file(t).meta['tags'] = {'x'}
            _last_file(t).meta['raw'] = b'bytes'
    elif name == 'mut-meta-intkeys':
        # keys json writes as strings ("1", "2.5"): whatever serialising
        # does with them, the tree keeps the caller's objects
        t.meta['r'] = {1: 'x', 2: ['y', {3: None}]}
        if _last_file(t) is not None:
            _last_file(t).meta['f'] = {2.5: 'z'}
    elif name == 'mut-options':
        t.options['encoding'] = 'latin-1'
        t.options['custom'] = 'c'
    elif name == 'mut-file-meta':
        _last_file(t).meta['touched'] = True
    elif name == 'mut-content-options':
        t.meta_section.options['zz'] = 1
        t.preamble_section.options['indent'] = 9
    elif name == 'mut-unknown-options':
        # options the library does not know, on the sections whose options
        # the writer passes through (preamble, change, file)
        t.preamble_section.options['x-lang'] = 'en'
        if _last_change(t) is not None:
            _last_change(t).options['x-c'] = 'v'
            _last_change(t).preamble_section.options['x-lang'] = 'fr'
        if _last_file(t) is not None:
            _last_file(t).options['x-f'] = 1
    elif name == 'set-preamble':
        t.preamble = 'changed\n'
        t.preamble_mimetype = 'text/markdown'
    elif name == 'set-diff':
        _last_file(t).diff = b'other\n'
        _last_file(t).diff_line_endings = 'unix'
    elif name == 'set-diff-type':
        _last_file(t).diff_type = 'binary'
        _last_file(t).meta_format = 'json'
    elif name == 'stats':
        t.generate_stats()
    elif name == 'to-bytes':
        try:
            a = t.to_bytes()
        except Exception as e:
            return ('raised', type(e).__name__)
        b = t.to_bytes()
        return ('bytes', a, b)
    elif name == 'write-shared':
        try:
            fresh = t.to_bytes()
        except Exception as e:
            fresh = ('raised', type(e).__name__)
        s = io.BytesIO()
        try:
            world.writer.write_stream(t, s)
            shared = s.getvalue()
        except Exception as e:
            shared = ('raised', type(e).__name__)
        return ('shared', fresh, shared)
    elif name == 'repr':
        return ('repr', repr(t), repr(t))
    elif name == 'iterate':
        return ('iter', len(list(t)), len([x for c in t.changes for x in c]))
    elif name == 'eq':
        return ('eq', t == world.trees[arg], t != world.trees[arg])
    return None


def world_key(world):
    return (tuple(fsnap(t) for t in world.trees),
            freeze({k: v for k, v in vars(world.reader).items()
                    if k != 'diffx_cls'}),
            freeze(vars(world.writer)))


def replay_history(hist):
    w = World()
    for op in hist:
        apply(w, op)
    return w


def check_step(hist, op, g0):
    """Replays hist on fresh objects, snapshots, applies op, checks.
    Returns (violations, new world key or None)."""
    w = replay_history(hist)
    name, i, arg = op
    before = [fsnap(t) for t in w.trees]
    g0 = module_globals_snapshot()      # relative to this very operation
    v = []
    try:
        obs = apply(w, op)
    except Exception as e:
        return [('op-raised:%s:%s:%s' % (name, type(e).__name__, site_of(e)),
                 '%r after %r raised %r' % (op, hist, e))], None
    after = [fsnap(t) for t in w.trees]
    for j in range(NSLOTS):
        if j == i and name not in OBSERVERS:
            continue
        if before[j] != after[j]:
            what = 'observer-mutated-target' if j == i else \
                'other-tree-changed'
            v.append(('%s:%s' % (what, name),
                      'op %r changed tree in slot %d\nhistory %r'
                      % (op, j, hist)))
    if module_globals_snapshot() != g0:
        v.append(('class-defaults-changed:%s' % name,
                  'op %r changed a class-/module-level default\nhistory %r'
                  % (op, hist)))
    al = aliasing([('slot%d' % j, t) for j, t in enumerate(w.trees)])
    for a, b in al[:3]:
        v.append(('shared-mutable:%s' % _generic(a, b),
                  '%s and %s are the same object after %r\nhistory %r'
                  % (a, b, op, hist)))
    if obs is not None:
        kind = obs[0]
        if kind == 'bytes' and obs[1] != obs[2]:
            v.append(('to-bytes-twice-differs', 'history %r' % (hist,)))
        elif kind == 'bytes':
            # differential: a tree rebuilt from scratch in the same state
            # serialises to the same bytes (no stale cache of an earlier
            # serialisation survives in-place edits)
            try:
                from mc.domsnap import tree_from_snap
                fresh_t = tree_from_snap(snap(w.trees[i]))
                if fsnap(fresh_t) == fsnap(w.trees[i]) and \
                        fresh_t.to_bytes() != obs[1]:
                    v.append(('to-bytes-differs-from-fresh-tree',
                              'a tree rebuilt in the same state serialises '
                              'differently\nhistory %r' % (hist,)))
            except Exception:
                pass
        elif kind == 'shared' and obs[1] != obs[2]:
            v.append(('shared-writer-differs-from-fresh',
                      'a reused DiffXDOMWriter produced %r, a fresh one %r\n'
                      'history %r' % (_s(obs[2]), _s(obs[1]), hist)))
        elif kind == 'repr' and obs[1] != obs[2]:
            v.append(('repr-unstable', ''))
    if name == 'parse':
        # two parses of the same bytes are equal but share nothing
        t2 = w.reader.parse(io.BytesIO(FILES[arg]))
        if fsnap(t2) != fsnap(w.trees[i]):
            v.append(('second-parse-differs', 'history %r' % (hist,)))
        for a, b in aliasing([('first', w.trees[i]), ('second', t2)])[:2]:
            v.append(('shared-mutable-between-parses:%s' % _generic(a, b),
                      '%s / %s' % (a, b)))
    return v, world_key(w)


def _s(x):
    r = repr(x)
    return r if len(r) < 200 else r[:200] + '...'


def _generic(a, b):
    import re
    f = lambda p: re.sub(r'\[[^\]]*\]', '[]', re.sub(r'^[a-z0-9]+:', '', p))[:70]
    return '%s~%s' % (f(a), f(b))


def depth_for(tier):
    return 4 if tier == 'quick' else 5


def plan(tier):
    ops = ops_for(2 if tier == 'quick' else NSLOTS)
    firsts = [op for op in ops if op[0] in ('new', 'new-attrs', 'parse')]
    units = []
    for a in firsts:
        for b in firsts:
            if a[1] == 0 and b[1] != 0:     # canonical: slot 0 first
                units.append((a, b))
    for hunks in (3300, 14000, 60000):      # ~70 KB, ~330 KB, ~1.5 MB
        units.append(('scale', hunks))
    for ia in range(len(THREAD_OPS)):
        for ib in range(ia, len(THREAD_OPS)):
            if thread_pair_ok(THREAD_OPS[ia], THREAD_OPS[ib]):
                units.append(('threads', ia, ib))
    return {
        'units': units,
        'rule': 'explicit-state BFS over a pool of %d live trees plus one '
                'shared DiffXDOMReader and one shared DiffXDOMWriter; %d '
                'operations (construct, parse with the shared reader, '
                'add_change/add_file, in-place mutation of meta/options, '
                'typed assignment, generate_stats, to_bytes, write with the '
                'shared writer, ==, repr, iteration); every transition '
                'replays its history on fresh objects; states merged on the '
                'tuple of tree snapshots + frozen reader/writer vars. '
                'Oracle after every operation: snapshots of all non-target '
                'trees and of class-level defaults unchanged, observers '
                'leave the target unchanged, identity walk finds no mutable '
                'object reachable from two sections/trees/class defaults, '
                'to_bytes twice identical, shared writer == fresh writer, '
                'two parses equal but disjoint. Non-trivial: operation '
                'executed while >= 2 trees are live.'
                % (2 if tier == 'quick' else NSLOTS, len(ops)),
        'bound': 'depth <= %d operations' % depth_for(tier),
        'exhaustive': True,
        'assumptions': ['argument objects handed to the library are fresh '
                        'per call (sharing the caller\'s own dict is normal '
                        'Python semantics, not library aliasing)'],
    }


# ------------------------------------------------------------- interleavings
# Two real threads, each running one whole operation (serialise with the
# shared writer, to_bytes, parse with the shared reader) under the
# controlled scheduler of mc/sched.py. Scheduling points: every write to an
# output stream, every read from an input stream, every items() of a
# metadata dict (reached from inside json.dumps). Every interleaving with
# at most `bound` preemptions is executed on fresh objects.

import threading

_CTL = {}


def _yield_point():
    ctl = _CTL.get(threading.get_ident())
    if ctl is not None:
        ctl.point()


class YieldDict(dict):
    def items(self):
        _yield_point()
        return dict.items(self)

    def __setitem__(self, k, v):
        _yield_point()
        return dict.__setitem__(self, k, v)

    def get(self, k, d=None):
        _yield_point()
        return dict.get(self, k, d)


class PointStream(io.BytesIO):
    def write(self, b):
        _yield_point()
        return io.BytesIO.write(self, b)


class PointReadStream(io.BytesIO):
    def read(self, *a):
        _yield_point()
        return io.BytesIO.read(self, *a)


def thread_world():
    w = World()
    a = DiffX(preamble='first\n', meta=YieldDict(k=['v'], z=1))
    ca = a.add_change(preamble='ca\n', meta=YieldDict(id='a'))
    ca.add_file(meta=YieldDict(path='fa'), diff=SAMPLE_DIFF)
    b = DiffX(encoding='utf-16', preamble='second\n',
              meta=YieldDict(other='tree'))
    cb = b.add_change(meta=YieldDict(id='b'), encoding='latin-1')
    cb.add_file(meta=YieldDict(path='fb'), diff=b'x\r\n',
                diff_type='binary')
    cb.add_file(meta=YieldDict(path='fc'))
    w.trees[0], w.trees[1] = a, b
    return w


THREAD_OPS = [('write-shared', 0), ('write-shared', 1), ('to-bytes', 0),
              ('to-bytes', 1), ('parse', 0), ('parse', 1), ('parse', 3),
              ('stats', 0), ('stats', 1), ('add-file', 1)]
MUTATORS = {'stats', 'add-file'}


def thread_pair_ok(opa, opb):
    """A mutator may only run beside operations on the OTHER tree (a
    mutator racing an observer of the same tree is the caller's race)."""
    for x, y in ((opa, opb), (opb, opa)):
        if x[0] in MUTATORS and y[0] != 'parse' and y[1] == x[1]:
            return False
    return True



def thread_body(w, op):
    name, j = op

    def body(ctl):
        _CTL[threading.get_ident()] = ctl
        try:
            if name == 'write-shared':
                st = PointStream()
                w.writer.write_stream(w.trees[j], st)
                return st.getvalue()
            if name == 'to-bytes':
                return w.trees[j].to_bytes()
            if name == 'parse':
                t = w.reader.parse(PointReadStream(FILES[j]))
                return fsnap(t)
            if name == 'stats':
                w.trees[j].generate_stats()
                return fsnap(w.trees[j])
            if name == 'add-file':
                w.trees[j].changes[0].add_file(
                    meta=YieldDict(path='new'), diff=SAMPLE_DIFF)
                w.trees[j].generate_stats()
                return fsnap(w.trees[j])
        finally:
            _CTL.pop(threading.get_ident(), None)
    return body


def sequential_result(op):
    w = thread_world()
    return thread_body(w, op)(None)


def run_thread_unit(unit, tier):
    from mc import sched
    _, ia, ib = unit
    opa, opb = THREAD_OPS[ia], THREAD_OPS[ib]
    bound = 2 if tier == 'quick' else 3
    acc = Acc()
    want = [sequential_result(opa), sequential_result(opb)]
    tree_snaps = [fsnap(t) for t in thread_world().trees[:2]]

    def make():
        w = thread_world()
        return [thread_body(w, opa), thread_body(w, opb)], w

    def check(x, w):
        v = []
        for t, op in enumerate((opa, opb)):
            if x.errors[t] is not None:
                v.append(('interleaved-op-raised:%s:%s:%s'
                          % (op[0], type(x.errors[t]).__name__,
                             site_of(x.errors[t])),
                          '%r raised %r' % (op, x.errors[t])))
            elif x.results[t] != want[t]:
                v.append(('interleaved-op-result-differs:%s' % op[0],
                          '%r gave a result that differs from running it '
                          'alone' % (op,)))
        for j in range(2):
            muts = [op for op in (opa, opb) if op[0] in MUTATORS and
                    op[1] == j]
            if not muts and fsnap(w.trees[j]) != tree_snaps[j]:
                v.append(('interleaved-observers-changed-tree',
                          'tree %d changed' % j))
        acc.evals += 1
        acc.transitions += len(x.trace)
        acc.validated += 1
        acc.nontrivial += 1
        acc.outcome('ok' if not v else 'violation')
        return v

    n, ntraces, viols, capped = sched.explore(make, check, bound=bound)
    acc.states = ntraces
    seen = set()
    for trace, choices, (key, msg) in viols:
        if key in seen and len(seen) > 3:
            continue
        seen.add(key)
        acc.violation(key, '%s\nthreads: 0 = %r, 1 = %r; schedule (thread '
                      'run at each point) %r' % (msg, opa, opb,
                                                 list(trace)),
                      {'kind': 'threads', 'ops': [ia, ib],
                       'choices': list(choices)})
    acc.sample({'thread_ops': [list(opa), list(opb)],
                'preemption_bound': bound, 'executions': n,
                'distinct_schedules': ntraces}, 1)
    return acc


def replay_threads(payload):
    from mc import sched
    ia, ib = payload['ops']
    opa, opb = THREAD_OPS[ia], THREAD_OPS[ib]
    want = [sequential_result(opa), sequential_result(opb)]
    snaps = [fsnap(t) for t in thread_world().trees[:2]]
    w = thread_world()
    x = sched.Execution([thread_body(w, opa), thread_body(w, opb)],
                        payload['choices']).run()
    out = []
    for t, op in enumerate((opa, opb)):
        if x.errors[t] is not None:
            out.append({'key': 'interleaved-op-raised:%s:%s:%s'
                        % (op[0], type(x.errors[t]).__name__,
                           site_of(x.errors[t])), 'msg': repr(x.errors[t])})
        elif x.results[t] != want[t]:
            out.append({'key': 'interleaved-op-result-differs:%s' % op[0],
                        'msg': repr(op)})
    for j in range(2):
        muts = [op for op in (opa, opb) if op[0] in MUTATORS and op[1] == j]
        if not muts and fsnap(w.trees[j]) != snaps[j]:
            out.append({'key': 'interleaved-observers-changed-tree',
                        'msg': 'tree %d' % j})
    return out


def run_scale_unit(unit):
    """Two live trees (constructed and parsed) that hold equal large diffs:
    every step checked like any other transition."""
    acc = Acc()
    g0 = module_globals_snapshot()
    n = unit[1]
    for first in (('new', 0, None), ('parse', 0, 0)):
        hist = (first, ('new-attrs', 1, None), ('add-change', 0, None),
                ('add-change', 1, None), ('add-file-big', 0, n),
                ('add-file-big', 1, n), ('stats', 0, None),
                ('stats', 1, None), ('mut-file-meta', 0, None),
                ('stats', 0, None), ('to-bytes', 1, None),
                ('write-shared', 0, None), ('write-shared', 1, None))
        for k in range(len(hist)):
            viols, key = check_step(hist[:k], hist[k], g0)
            acc.evals += 1
            acc.transitions += 1
            acc.validated += 1
            acc.nontrivial += 1
            for k_, msg in viols:
                acc.violation(k_ + ':scale', msg[:800],
                              {'kind': 'hist',
                               'hist': [list(o) for o in hist[:k + 1]]})
            acc.outcome('ok' if not viols else 'violation')
    acc.states = 2
    acc.sample({'scale_hunks': n}, 1)
    return acc


def run_unit(unit, tier):
    if unit[0] == 'scale':
        return run_scale_unit(unit)
    if unit[0] == 'threads':
        return run_thread_unit(unit, tier)
    acc = Acc()
    g0 = module_globals_snapshot()
    ops = ops_for(2 if tier == 'quick' else NSLOTS)
    D = depth_for(tier)
    seen = {}
    start = (unit[0], unit[1])
    frontier = []
    # execute the two creating ops themselves as checked transitions
    v1, k1 = check_step((), unit[0], g0)
    v2, k2 = check_step((unit[0],), unit[1], g0)
    for key, msg in v1 + v2:
        acc.violation(key, msg, {'kind': 'hist', 'hist': list(start)})
    acc.transitions += 2
    if k2 is None:
        return acc
    seen[k2] = start
    frontier = [start]
    while frontier:
        nxt = []
        for hist in frontier:
            w = replay_history(hist)
            for op in ops:
                if not enabled(w, op):
                    continue
                viols, key = check_step(hist, op, g0)
                acc.transitions += 1
                acc.evals += 1
                acc.validated += 1
                if sum(1 for t in w.trees if t is not None) >= 2:
                    acc.nontrivial += 1
                for k, msg in viols:
                    acc.violation(k, msg, {'kind': 'hist',
                                           'hist': [list(o) for o in hist] +
                                           [list(op)]})
                acc.outcome('ok' if not viols else 'violation')
                if key is None or key in seen:
                    continue
                seen[key] = hist + (op,)
                if len(hist) + 1 < D:
                    nxt.append(hist + (op,))
        frontier = nxt
    acc.states = len(seen)
    acc.sample({'history': [list(o) for o in max(seen.values(), key=len)]}, 1)
    return acc


def replay(payload):
    if payload.get('kind') == 'threads':
        return replay_threads(payload)
    if payload.get('kind') != 'hist':
        return []
    hist = [tuple(o) for o in payload['hist']]
    g0 = module_globals_snapshot()
    out = []
    for n in range(len(hist)):
        viols, key = check_step(tuple(hist[:n]), hist[n], g0)
        if n == len(hist) - 1 or viols:
            out += viols
    if any(o[0] == 'add-file-big' and o[2] for o in hist):
        out = [(k + ':scale', m) for k, m in out]
    return [{'key': k, 'msg': m} for k, m in out]
