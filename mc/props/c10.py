"""C10 -- reader accepts exactly the legal section orders."""
from pydiffx.errors import DiffXParseError

from mc import spec
from mc.explore import Acc
from mc.observe import read_all, freeze_reader, site_of

ID = 'C10'
LEVEL = 'model_checking'

NAMES = ['diffx', 'preamble', 'meta', 'change', 'file', 'diff']
IDS = ['.' * lvl + n for lvl in range(0, 5) for n in NAMES]   # 30 ids
LEGAL = set(spec.LEGAL_IDS)


def section_bytes(sid):
    """(header+body bytes, logical lines) of a syntactically valid section."""
    name = sid.lstrip('.')
    if name == 'diffx':
        return b'#%s: encoding=utf-8, version=1.0\n' % sid.encode(), 1
    if name in ('change', 'file'):
        return b'#%s:\n' % sid.encode(), 1
    if name == 'preamble':
        return b'#%s: length=2\na\n' % sid.encode(), 2
    if name == 'meta':
        return b'#%s: format=json, length=11\n{"a": "x"}\n' % sid.encode(), 2
    return b'#%s: length=2\na\n' % sid.encode(), 2


SEC = {sid: section_bytes(sid) for sid in IDS}


def rich_section_bytes(sid, variant):
    """Same ids with options / bodies a real producer writes (the order rule
    must not depend on them)."""
    name = sid.lstrip('.')
    e = sid.encode()
    if name == 'diffx':
        return b'#%s: encoding=utf-8, version=1.0\n' % e, 1
    if name in ('change', 'file'):
        return (b'#%s: encoding=%s\n' % (e, [b'utf-8', b'latin-1',
                                              b'ascii'][variant % 3]), 1)
    if name == 'preamble':
        body = b'  one\r\n  two\r\n'
        return (b'#%s: indent=2, length=%d, line_endings=dos, '
                b'mimetype=text/markdown\n' % (e, len(body)) + body, 3)
    if name == 'meta':
        body = b'{\n    "k": [1, 2]\n}\n'
        return (b'#%s: encoding=utf-8, format=json, length=%d\n'
                % (e, len(body)) + body, 4)
    body = [b'delta 1\nx\n', b'a\r\nb\r\n', b'\xff\xfea\x00\n\x00'][
        variant % 3]
    opts = [b'length=%d, line_endings=unix, type=binary' % len(body),
            b'length=%d, line_endings=dos, type=text' % len(body),
            b'encoding=utf-16, length=%d' % len(body)][variant % 3]
    return b'#%s: %s\n' % (e, opts) + body, 1 + [2, 2, 1][variant % 3]


RICH = [{sid: rich_section_bytes(sid, v) for sid in IDS} for v in range(3)]


BLANKS = ['none', 'before-last', 'before-every', 'crlf-before-last',
          'rich0', 'rich1', 'rich2']

# metadata bodies with the values the specification documents (the order
# rule is about headers; what a body SAYS must not matter)
META_BODIES = [
    {'type': 'symlink', 'path': 'l', 'symlink target': 't'},
    {'type': 'directory', 'path': 'd'}, {'type': 'file', 'path': 'f'},
    {'op': 'delete', 'path': 'f'}, {'op': 'create', 'path': 'f'},
    {'op': 'move', 'path': {'old': 'a', 'new': 'b'}},
    {'op': 'copy', 'path': {'old': 'a', 'new': 'b'}},
    {'op': 'move-modify', 'path': {'old': 'a', 'new': 'b'}},
    {'op': 'copy-modify', 'path': {'old': 'a', 'new': 'b'}},
    {'op': 'modify', 'path': 'f', 'stats': {'insertions': 0, 'deletions': 0,
                                           'lines changed': 0}},
    {'stats': {'files': 0, 'changes': 0, 'insertions': 0, 'deletions': 0}},
    {'diff': None, 'sections': [], 'next': '...diff', 'binary': True},
    {'unix file mode': {'old': '0100644', 'new': '0120000'}},
    {'revision': {'old': 'abc'}}, {'revision': {'new': 'def'}},
    {'path': '/dev/null'}, {'empty': True, 'length': 0, 'size': 0},
]
META_SEC = []
for _mb in META_BODIES:
    import json as _json
    _b = _json.dumps(_mb, sort_keys=True).encode('ascii') + b'\n'
    _sec = dict(SEC)
    for _sid in IDS:
        if _sid.lstrip('.') == 'meta':
            _sec[_sid] = (b'#%s: format=json, length=%d\n%s'
                          % (_sid.encode(), len(_b), _b), 2)
    META_SEC.append(_sec)


def check_sequence(seq, blank='none'):
    """seq: list of ids; all but possibly the last are a legal prefix.
    blank: where blank separator lines are placed (they are not counted in
    logical line numbers). Returns (violations, accepted_by_model)."""
    sec = SEC
    if blank.startswith('rich'):
        sec = RICH[int(blank[4:])]
    if blank.startswith('meta-'):
        sec = META_SEC[int(blank[5:])]
    if blank.startswith('big-'):
        # the main preamble (always legal at index 1 of a long sequence) has
        # a body of n lines: every later header sits beyond line n
        n = int(blank[4:])
        sec = dict(SEC)
        sec['.preamble'] = (b'#.preamble: length=%d\n' % (2 * n) +
                            b'a\n' * n, 1 + n)
    parts = []
    for i, s in enumerate(seq):
        if blank.startswith('big-') or blank.startswith('meta-'):
            parts.append(sec[s][0])
            continue
        if blank.startswith('rich'):
            parts.append(sec[s][0])
            continue
        if blank == 'before-every' or (
                blank == 'before-last' and i == len(seq) - 1 and i > 0):
            parts.append(b'\n')
        elif blank == 'crlf-before-last' and i == len(seq) - 1 and i > 0:
            parts.append(b'\r\n \n')
        parts.append(SEC[s][0])
    data = b''.join(parts)
    # model
    prev = None
    k = None
    line = 0
    err_line = None
    for i, s in enumerate(seq):
        if s not in LEGAL or s not in spec.NEXT[prev]:
            k = i
            err_line = line
            break
        prev = s
        line += sec[s][1]
    recs, exc, r, gen = read_all(data)
    v = []
    if k is None:
        if exc is not None:
            v.append(('legal-sequence-rejected:%s-after-%s' % (
                seq[-1], seq[-2] if len(seq) > 1 else None),
                '%r raised %r' % (seq, exc)))
        elif [x['section'] for x in recs] != list(seq):
            v.append(('records-differ', '%r gave %r'
                      % (seq, [x['section'] for x in recs])))
        else:
            ln = 0
            for x, s in zip(recs, seq):
                if x['line'] != ln or x['level'] != len(s) - len(s.lstrip('.')):
                    v.append(('record-line-or-level', '%r: %r' % (seq, x)))
                    break
                ln += sec[s][1]
    else:
        if exc is None:
            v.append(('illegal-sequence-accepted:%s-after-%s' % (
                seq[k], seq[k - 1] if k else None),
                '%r accepted (%d records)' % (seq, len(recs))))
        elif not isinstance(exc, DiffXParseError):
            v.append(('wrong-exception:%s:%s' % (type(exc).__name__,
                                                 site_of(exc)),
                      '%r raised %r' % (seq, exc)))
        else:
            if [x['section'] for x in recs] != list(seq[:k]):
                v.append(('rejected-at-wrong-section',
                          '%r: records %r, expected rejection of #%d'
                          % (seq, [x['section'] for x in recs], k)))
    if blank == 'none' and not v and len(seq) <= 8:
        v.extend(check_reiteration(seq, data, recs, exc))
    return v, k is None


def check_reiteration(seq, data, recs, exc):
    """The same reader object iterated again over the rewound stream after
    a complete, successful pass accepts exactly like a fresh reader (line
    numbers are not compared: the pinned reader keeps counting). Partial
    passes are not repeated: what a reader has buffered when its consumer
    stops half-way is its own business (a push-back buffer is a legitimate
    implementation)."""
    import io
    from pydiffx.reader import DiffXReader
    want = ([x['section'] for x in recs], type(exc).__name__)
    v = []
    if exc is not None:
        return []      # only a pass that ended normally is repeated
    for first in ('all',):
        fp = io.BytesIO(data)
        r = DiffXReader(fp)
        try:
            it = iter(r)
            if first == 'one':
                next(it)
            else:
                for _ in it:
                    pass
        except BaseException as e:
            if isinstance(e, (KeyboardInterrupt, SystemExit)):
                raise
        fp.seek(0)
        got = []
        gexc = None
        try:
            for x in r:
                got.append(x['section'])
        except BaseException as e:
            if isinstance(e, (KeyboardInterrupt, SystemExit)):
                raise
            gexc = e
        if (got, type(gexc).__name__) != want:
            v.append(('second-iteration-differs:after-%s' % first,
                      '%r: a reader iterated again after %s record(s) gave '
                      '%r / %r, a fresh reader %r' % (seq, first, got, gexc,
                                                     want)))
            break
    return v


def depth_for(tier):
    return 12 if tier == "quick" else 16


def legal_prefixes(n):
    out = [[]]
    frontier = [[]]
    for _ in range(n):
        nxt = []
        for p in frontier:
            prev = p[-1] if p else None
            for s in sorted(spec.NEXT[prev]):
                nxt.append(p + [s])
        out.extend(nxt)
        frontier = nxt
    return out


LONG_SHAPES = [(100, 10), (10, 150), (400, 1), (60, 40)]


def big_sizes(tier):
    from mc.alphabets import BOUNDARY_SIZES_Q
    out = list(BOUNDARY_SIZES_Q) + [4999, 5000, 5001, 9999, 10000, 10001,
                                    100000, 300000]
    if tier != 'quick':
        out += [99999, 1000000, 1000001, 3000000]
    return sorted(set(out))


def plan(tier):
    pre = [p for p in legal_prefixes(6) if len(p) == 6]
    units = [('short',)] + [('tree', p) for p in pre] + [('graph',),
                                                         ('scale',)]
    units += [('big', n) for n in big_sizes(tier)]
    units += [('metabody', i) for i in range(len(META_BODIES))]
    units += [('alt-encodings', v) for v in range(3)]
    units += [('long', nch, nf) for nch, nf in LONG_SHAPES]
    return {
        'units': units,
        'rule': 'every legal prefix of section ids up to length %d (legal by '
                'the hierarchy automaton bound to the spec document) extended '
                'by each of the 30 syntactically valid ids (5 nesting levels '
                'x 6 names; 9 legal, 21 illegal incl. 4-dot ids), every '
                'content section with a minimal valid body; each sequence also '
                'with a blank line before the last / before every header and '
                'a CRLF blank + whitespace line before the last, and in three '
                '"rich" renderings where every section carries the options '
                'and bodies a real producer writes (encodings on containers, '
                'indent / mimetype / dos preambles, binary / dos / UTF-16 '
                'diffs) and with 17 metadata bodies holding the values the '
                'specification documents (type symlink / directory, every '
                'op, zero stats, ...); each is '
                'read by the real DiffXReader; for sequences of <= 8 sections '
                'the same reader object is iterated again over the rewound '
                'stream after a complete pass and must accept like a fresh '
                'one; the same successor sweep far '
                'into a file (after a body of 1023 .. 300000 (thorough '
                '3000000) lines at every boundary size, and after 400 .. '
                '4000 sections); plus explicit-state closure of '
                'the frozen reader state. Non-trivial: >= 3 accepted '
                'sections ending in a rejection.' % (depth_for(tier) - 1),
        'bound': 'sequence length <= %d' % depth_for(tier),
        'exhaustive': True,
        'assumptions': ['section bodies are minimal valid ones (content '
                        'variation is C03/C08 territory)'],
    }



def OPT_UNITS(tier):
    """Units repeated in an interpreter started with -O (validation must
    not live in assert statements or __debug__ blocks)."""
    us = plan(tier)['units']
    keep = []
    for kind, n in [('short', 1), ('tree', 4), ('metabody', 2)]:
        keep += [u for u in us if str(u[0]) == kind][:n]
    return keep


def run_unit(unit, tier):
    acc = Acc()
    D = depth_for(tier)

    def visit(prefix):
        for s in IDS:
            seq = prefix + [s]
            allv = []
            for blank in (BLANKS if recurse[0] or len(seq) < 40
                          else ['none', 'before-last', 'rich0']):
                viols, ok = check_sequence(seq, blank)
                acc.evals += 1
                acc.transitions += 1
                acc.validated += 1
                for key, msg in viols:
                    k2 = key if blank == 'none' else '%s:blank-%s' % (
                        key, blank)
                    acc.violation(k2, '%s (blank lines: %s)' % (msg, blank),
                                  {'kind': 'seq', 'seq': seq,
                                   'blank': blank})
                allv += viols
            viols = allv
            acc.states += 1
            if not ok and len(prefix) >= 3:
                acc.nontrivial += 1
            acc.outcome('accepted' if ok else 'rejected')
            if ok and not viols and len(seq) < D and recurse[0]:
                visit(seq)

    recurse = [True]
    if unit[0] == 'alt-encodings':
        # legal orders in which containers ALTERNATE between declaring an
        # ASCII-incompatible encoding and declaring none, contents written
        # in the encoding they inherit: every such order is accepted (an
        # order is legal whatever the options of its headers are)
        from mc.observe import read_all as _ra
        encs = [('utf-16', None), (None, 'utf-32'), ('utf-16', 'utf-32')][
            unit[1]]
        for p in legal_prefixes(8):
            if sum(1 for x in p if x in ('.change', '..file')) < 2:
                continue
            calls = []
            nchg = nfile = 0
            for sid in p[1:]:
                name = sid.lstrip('.')
                if name == 'change':
                    calls.append(['change', encs[0] if nchg % 2 == 0
                                  else None])
                    nchg += 1
                elif name == 'file':
                    calls.append(['file', encs[1] if nfile % 2 == 0
                                  else None])
                    nfile += 1
                elif name == 'preamble':
                    calls.append(['preamble', 'p é\n', None, 2, None, None])
                elif name == 'meta':
                    calls.append(['meta', {'k': 'é'}, None])
                else:
                    calls.append(['diff', b'-a\n+b\n', None, None, None])
            data, recs = spec.serialize(calls, 'utf-8')
            got, exc, _, _ = _ra(data)
            viols = []
            if exc is not None:
                viols.append(('legal-sequence-rejected:alternating-'
                              'encodings:%s' % type(exc).__name__,
                              '%r with container encodings %r: %r'
                              % (p, encs, exc)))
            elif [x['section'] for x in got] != list(p):
                viols.append(('records-differ:alternating-encodings',
                              '%r gave %r' % (p, [x['section']
                                                  for x in got])))
            acc.evals += 1
            acc.states += 1
            acc.transitions += 1
            acc.validated += 1
            acc.nontrivial += 1
            for key, msg in viols:
                acc.violation(key, msg, {'kind': 'alt', 'seq': list(p),
                                         'variant': unit[1]})
            acc.outcome('accepted' if not viols else 'violation')
        acc.sample({'alternating_container_encodings': list(encs)}, 1)
    elif unit[0] == 'metabody':
        blank = 'meta-%d' % unit[1]
        for p in legal_prefixes(7):
            if not any(x.endswith('meta') for x in p):
                continue
            for s_ in IDS:
                sq = list(p) + [s_]
                viols, ok = check_sequence(sq, blank)
                acc.evals += 1
                acc.states += 1
                acc.transitions += 1
                acc.validated += 1
                if not ok:
                    acc.nontrivial += 1
                for key, msg in viols:
                    acc.violation('%s:metadata-body' % key,
                                  '%s (metadata bodies %r)'
                                  % (msg[-400:], META_BODIES[unit[1]]),
                                  {'kind': 'seq', 'seq': sq, 'blank': blank,
                                   'suffix': ':metadata-body'})
                acc.outcome('accepted' if ok else 'rejected')
        acc.sample({'metadata_body': META_BODIES[unit[1]]}, 1)
    elif unit[0] in ('big', 'long'):
        # the order rule far into a file: (a) after a body of n lines,
        # (b) after thousands of sections; every id after each of the last
        # positions of a sequence that has already shown every header kind
        if unit[0] == 'big':
            blanks = ['big-%d' % unit[1]]
            nch, nf = 2, 2
        else:
            blanks = ['none']
            nch, nf = unit[1], unit[2]
        seq = ['diffx', '.preamble', '.meta']
        for c in range(nch):
            seq += ['.change', '..preamble', '..meta']
            for f in range(nf):
                seq += ['..file', '...meta'] + (
                    ['...diff'] if (c + f) % 2 else [])
        for cut in range(max(2, len(seq) - 9), len(seq) + 1):
            prefix = seq[:cut]
            for s_ in IDS:
                sq = prefix + [s_]
                for blank in blanks:
                    viols, ok = check_sequence(sq, blank)
                    acc.evals += 1
                    acc.states += 1
                    acc.transitions += 1
                    acc.validated += 1
                    if not ok:
                        acc.nontrivial += 1
                    for key, msg in viols:
                        acc.violation('%s:far-into-file' % key,
                                      '%s (%s, %d sections)'
                                      % (msg[-400:], blank, len(sq)),
                                      {'kind': 'far', 'unit': list(unit),
                                       'cut': cut, 'sid': s_,
                                       'blank': blank})
                    acc.outcome('accepted' if ok else 'rejected')
        acc.sample({'far_into_file': list(unit)}, 1)
    elif unit[0] == 'scale':
        # long legal sequences (many changes / files), every successor id
        # tried after each of their last 12 positions
        recurse[0] = False
        for nch, nf in ((3, 3), (4, 4), (10, 10), (33, 2), (2, 33)):
            seq = ['diffx', '.preamble', '.meta']
            for c in range(nch):
                seq += ['.change', '..preamble', '..meta']
                for f in range(nf):
                    seq += ['..file', '...meta'] + (['...diff'] if (c + f) % 2
                                                    else [])
            for cut in range(max(1, len(seq) - 8), len(seq) + 1):
                visit(seq[:cut])
        acc.sample({'long_sequences': 'up to 100 changes x 3 files'}, 1)
    elif unit[0] == 'short':
        recurse[0] = False
        for p in legal_prefixes(5):
            visit(p)
        # file that does not begin with a header at all / blank only
        for data in (b'', b'\n\n', b'diffx: version=1.0\n', b'x\n#diffx: version=1.0\n'):
            recs, exc, _, _ = read_all(data)
            acc.evals += 1
            if data.strip() and not isinstance(exc, DiffXParseError):
                acc.violation('non-header-start-accepted', repr((data, exc)),
                              {'kind': 'none'})
            if not data.strip() and (exc is not None or recs):
                acc.violation('blank-file', repr((data, exc, recs)),
                              {'kind': 'none'})
        acc.sample({'sequence': ['diffx', '.change', '..file', '...meta',
                                 '.diff']}, 1)
    elif unit[0] == 'tree':
        visit(list(unit[1]))
        acc.sample({'prefix': unit[1]}, 1)
    else:
        # closure of the reader's frozen state under all 30 successors
        seen = {}
        frontier = [[]]
        while frontier:
            nxt = []
            for p in frontier:
                for s in IDS:
                    seq = p + [s]
                    viols, ok = check_sequence(seq)
                    acc.evals += 1
                    acc.transitions += 1
                    acc.validated += 1
                    for key, msg in viols:
                        acc.violation(key, msg, {'kind': 'seq', 'seq': seq})
                    if not ok or viols:
                        continue
                    data = b''.join(SEC[x][0] for x in seq)
                    recs, exc, r, gen = read_all(data, limit=len(seq))
                    key = (freeze_reader(r, gen), seq[-1])
                    if key not in seen and len(seq) < 20 and \
                            len(seen) < 300:
                        seen[key] = seq
                        nxt.append(seq)
                    acc.outcome('graph-transition')
            frontier = nxt
        acc.states = len(seen)
        acc.extra = {'reader_graph_states': len(seen),
                     'reader_graph_closed': len(seen) < 300}
        acc.sample({'reader_state_graph_states': len(seen)}, 1)
    return acc


def replay(payload):
    if payload.get('kind') == 'far':
        unit = payload['unit']
        nch, nf = (2, 2) if unit[0] == 'big' else (unit[1], unit[2])
        seq = ['diffx', '.preamble', '.meta']
        for c in range(nch):
            seq += ['.change', '..preamble', '..meta']
            for f in range(nf):
                seq += ['..file', '...meta'] + (
                    ['...diff'] if (c + f) % 2 else [])
        sq = seq[:payload['cut']] + [payload['sid']]
        viols, ok = check_sequence(sq, payload['blank'])
        return [{'key': '%s:far-into-file' % k, 'msg': m[-400:]}
                for k, m in viols]
    if payload.get('kind') != 'seq':
        return []
    blank = payload.get('blank', 'none')
    viols, ok = check_sequence(payload['seq'], blank)
    if payload.get('suffix'):
        return [{'key': k + payload['suffix'], 'msg': m[-400:]}
                for k, m in viols]
    return [{'key': k if blank == 'none' else '%s:blank-%s' % (k, blank),
             'msg': m} for k, m in viols]
