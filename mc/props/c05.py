"""C05 -- object model: write then parse gives back the tree."""
import copy
import itertools

from pydiffx.dom import DiffX
from pydiffx.errors import BaseDiffXError

from mc import spec
from mc.alphabets import encodable, misaligned, VENDOR_DIFF, META_BY_NAME
from mc.domsnap import snap, fsnap, SAMPLE_DIFF
from mc.explore import Acc, freeze
from mc.observe import site_of
from mc.spec import to_jsonable, from_jsonable

ID = 'C05'
LEVEL = 'model_checking'

TEXTS = [None, 'a\n', 'a', 'a\r\nb\r\n', 'a\r\nb\n', '\n', ' lead\n  two\n',
         '#.change:\n#..file:\n', 'é\n', '\ufeffx\n', 'x\n\n\ny', '']
METAS = [None, {'a': 'x'}, {'k': {'sub': [1, 'two', {'t': None}]}, 'z': 'é'},
         {'b': 1, 'a': 2, 'B': 3}, {},
         {'z': [{'source': 's', 'dest': 'd', 'bytes': 3}],
          'a': {'y': {'q': 1, 'p': [{'n': 1, 'm': 2}]}}}]
FMETAS = [{'path': 'f'}, {'path': 'g', 'revision': {'old': 'a', 'new': 'b'}},
          None, {}, META_BY_NAME['degenerate-pairs'],
          META_BY_NAME['semantic']]
METAS.append(META_BY_NAME['degenerate-pairs'])
METAS.append(META_BY_NAME['spellings'])
METAS.append(META_BY_NAME['inconsistent-stats'])
FMETAS.append(META_BY_NAME['inconsistent-stats'])
METAS.append(META_BY_NAME['key-order'])
FMETAS.append(META_BY_NAME['spellings'])
DIFFS = [None, b'a\n', b'a', SAMPLE_DIFF, b'a\r\nb\r\n', b'a\r\nb\n',
         b'\x00\xff\n', b'#..file:\n', b'', 'x\n'.encode('utf-16'),
         VENDOR_DIFF]
ENCS = [None, 'utf-8', 'utf-16', 'latin-1', 'utf-32-be']
MAIN_ENCS = ['utf-8', 'utf-16', 'latin-1']
INDENTS = [None, 0, 4, 2, 7]
LES = [None, 'unix', 'dos']
MIMES = [None, 'text/plain', 'text/markdown']
DTYPES = [None, 'text', 'binary']
DENCS = [None, 'utf-8', 'utf-16', 'latin-1']


def slots_for(shape):
    """[(path, attr, domain)] default first. path: ('main',), ('c', i),
    ('f', i, j)."""
    S = []

    def pre(path):
        S.extend([(path, 'preamble', TEXTS),
                  (path, 'preamble_encoding', ENCS),
                  (path, 'preamble_indent', INDENTS),
                  (path, 'preamble_line_endings', LES),
                  (path, 'preamble_mimetype', MIMES)])
    S.append((('main',), 'encoding', MAIN_ENCS))
    pre(('main',))
    S.extend([(('main',), 'meta', METAS), (('main',), 'meta_encoding', ENCS)])
    for ci, nf in enumerate(shape):
        p = ('c', ci)
        S.append((p, 'encoding', ENCS))
        pre(p)
        S.extend([(p, 'meta', METAS), (p, 'meta_encoding', ENCS)])
        for fi in range(nf):
            q = ('f', ci, fi)
            S.extend([(q, 'encoding', ENCS), (q, 'meta', FMETAS),
                      (q, 'meta_encoding', ENCS), (q, 'diff', DIFFS),
                      (q, 'diff_encoding', DENCS),
                      (q, 'diff_line_endings', LES),
                      (q, 'diff_type', DTYPES)])
    return S


def build(shape, assign):
    """assign: {(path, attr): value}; built through constructors and typed
    attributes only."""
    d = DiffX()
    nodes = {('main',): d}
    for ci, nf in enumerate(shape):
        c = d.add_change()
        nodes[('c', ci)] = c
        for fi in range(nf):
            nodes[('f', ci, fi)] = c.add_file()
    for (path, attr), value in assign.items():
        if value is None:
            continue
        from mc.observe import fresh
        setattr(nodes[path], attr, fresh(copy.deepcopy(value)))
    return d


def calls_of(s):
    """Writer calls the documented DOM writer makes for a snapshot."""
    def content_calls(node, with_preamble=True, with_diff=False):
        out = []
        if with_preamble and node['preamble']['content']:
            o = node['preamble']['options']
            out.append(['preamble', node['preamble']['content'],
                        o.get('encoding'), o.get('indent', 4),
                        o.get('line_endings'), o.get('mimetype')])
        if node['meta']['content']:
            o = node['meta']['options']
            out.append(['meta', node['meta']['content'], o.get('encoding')])
        if with_diff and node['diff']['content']:
            o = node['diff']['options']
            out.append(['diff', node['diff']['content'], o.get('type'),
                        o.get('encoding'), o.get('line_endings')])
        return out
    calls = content_calls(s)
    for c in s['changes']:
        calls.append(['change', c['options'].get('encoding')])
        calls += content_calls(c)
        for f in c['files']:
            calls.append(['file', f['options'].get('encoding')])
            calls += content_calls(f, with_preamble=False, with_diff=True)
    return s['options'].get('encoding'), calls


def snap_from_records(recs):
    """Snapshot the documented loader must produce for reader records."""
    def content(cls, sid, rec=None):
        defaults = {'DiffXMetaSection': ({'format': 'json'}, {}),
                    'DiffXPreambleSection': ({}, None),
                    'DiffXFileDiffSection': ({}, None)}[cls]
        if rec is None:
            return {'id': sid, 'cls': cls, 'options': dict(defaults[0]),
                    'content': copy.deepcopy(defaults[1])}
        o = {k: v for k, v in rec['options'].items() if k != 'length'}
        for k in ('text', 'metadata', 'diff'):
            if k in rec:
                return {'id': sid, 'cls': cls, 'options': o,
                        'content': rec[k]}
    root = None
    cur_c = cur_f = None
    for r in recs:
        sid = r['section']
        if sid == 'diffx':
            root = {'id': 'None', 'options': dict(r['options']),
                    'preamble': content('DiffXPreambleSection', '.preamble'),
                    'meta': content('DiffXMetaSection', '.meta'),
                    'changes': []}
        elif sid == '.preamble':
            root['preamble'] = content('DiffXPreambleSection', sid, r)
        elif sid == '.meta':
            root['meta'] = content('DiffXMetaSection', sid, r)
        elif sid == '.change':
            cur_c = {'id': '.change', 'options': dict(r['options']),
                     'preamble': content('DiffXPreambleSection',
                                         '..preamble'),
                     'meta': content('DiffXMetaSection', '..meta'),
                     'files': []}
            root['changes'].append(cur_c)
        elif sid == '..preamble':
            cur_c['preamble'] = content('DiffXPreambleSection', sid, r)
        elif sid == '..meta':
            cur_c['meta'] = content('DiffXMetaSection', sid, r)
        elif sid == '..file':
            cur_f = {'id': '..file', 'options': dict(r['options']),
                     'meta': content('DiffXMetaSection', '...meta'),
                     'diff': content('DiffXFileDiffSection', '...diff')}
            cur_c['files'].append(cur_f)
        elif sid == '...meta':
            cur_f['meta'] = content('DiffXMetaSection', sid, r)
        elif sid == '...diff':
            cur_f['diff'] = content('DiffXFileDiffSection', sid, r)
    return root


def in_domain(calls, root):
    from mc.wrgraph import file_domain_ok
    try:
        return file_domain_ok(calls, root, False)
    except Exception:
        return False


def check_tree(shape, assign):
    """Returns (violations, class)."""
    try:
        tree = build(shape, assign)
    except Exception as e:
        return [('build-raised:%s' % type(e).__name__, repr(e))], 'build'
    s0 = snap(tree)
    root, calls = calls_of(s0)
    try:
        data = tree.to_bytes()
    except BaseDiffXError:
        return [], 'not-serialisable'
    except Exception as e:
        if not in_domain(calls, root):
            return [], 'out-of-domain'
        return [('to-bytes-raised:%s:%s' % (type(e).__name__, site_of(e)),
                 '%r\ncalls %r' % (e, _s(calls)))], 'raised'
    if freeze(snap(tree)) != freeze(s0):
        return [('to-bytes-mutated-tree', _s(calls))], 'mutated'
    if not in_domain(calls, root):
        return [], 'out-of-domain'
    v = []
    try:
        want, recs = spec.serialize(calls, root)
    except spec.Reject as e:
        return [('serialised-illegal-order', '%s\ncalls %r'
                 % (e, _s(calls)))], 'illegal'
    if data != want:
        i = next((k for k in range(min(len(data), len(want)))
                  if data[k] != want[k]), min(len(data), len(want)))
        v.append(('bytes-not-canonical', 'first difference at byte %d:\n '
                  'wrote     %r\n canonical %r\ncalls %r'
                  % (i, data[max(0, i - 40):i + 60],
                     want[max(0, i - 40):i + 60], _s(calls))))
    try:
        back = DiffX.from_bytes(data)
    except Exception as e:
        v.append(('from-bytes-raised:%s:%s' % (type(e).__name__,
                                               site_of(e)),
                  '%r\ncalls %r' % (e, _s(calls))))
        return v, 'reload-raised'
    exp = snap_from_records(recs)
    got = snap(back)
    if freeze(got) != freeze(exp):
        v.append(('reloaded-tree-differs:%s' % first_diff(got, exp),
                  'calls %r\n got      %s\n expected %s'
                  % (_s(calls), _s(got), _s(exp))))
    same = freeze(got) == freeze(s0)
    try:
        eq = (back == tree)
    except Exception as e:
        eq = 'raised %r' % e
    if eq != same:
        v.append(('dom-eq-disagrees-with-snapshot', '== gives %r, snapshots '
                  'equal %r\ncalls %r' % (eq, same, _s(calls))))
    return v, 'ok'


def first_diff(a, b, path=''):
    if isinstance(a, dict) and isinstance(b, dict):
        for k in sorted(set(a) | set(b), key=str):
            if k not in a or k not in b:
                return '%s.%s' % (path, k)
            if freeze(a[k]) != freeze(b[k]):
                return first_diff(a[k], b[k], '%s.%s' % (path, k)
                                  if not isinstance(k, int) else path)
        return path
    if isinstance(a, list) and isinstance(b, list):
        if len(a) != len(b):
            return path + '.len'
        for x, y in zip(a, b):
            if freeze(x) != freeze(y):
                return first_diff(x, y, path + '[]')
    return path


def _s(x):
    r = repr(x)
    return r if len(r) < 500 else r[:500] + '...'


def tree_from_calls(calls, root):
    """A tree built through the public API that the DOM writer must turn
    into exactly these writer calls."""
    d = DiffX(encoding=root)
    cur_c = cur_f = None
    node = d
    for c in calls:
        k = c[0]
        if k == 'change':
            cur_c = d.add_change(**({'encoding': c[1]} if c[1] else {}))
            node = cur_c
        elif k == 'file':
            cur_f = cur_c.add_file(**({'encoding': c[1]} if c[1] else {}))
            node = cur_f
        elif k == 'preamble':
            node.preamble = c[1]
            if c[2]:
                node.preamble_encoding = c[2]
            node.preamble_indent = c[3]
            if c[4]:
                node.preamble_line_endings = c[4]
            if c[5]:
                node.preamble_mimetype = c[5]
        elif k == 'meta':
            node.meta = copy.deepcopy(c[1])
            if c[2]:
                node.meta_encoding = c[2]
        else:
            node.diff = c[1]
            if c[2]:
                node.diff_type = c[2]
            if c[3]:
                node.diff_encoding = c[3]
            if c[4]:
                node.diff_line_endings = c[4]
    return d


def equal_section_docs():
    """Call lists in which whole sections repeat (same title on two
    commits, the same file content in two changes, cherry-picks): equal is
    not identical."""
    F = lambda name: [['file', None], ['meta', {'path': name}, None],
                      ['diff', b'-a\n+b\n', None, None, None]]
    C = lambda files, pre='Fix typo\n', mid='same': (
        [['change', None], ['preamble', pre, None, 4, None, None],
         ['meta', {'id': mid}, None]] + [c for f in files for c in f])
    docs = []
    for layout in ([['f'], ['f', 'g']], [['f', 'g'], ['f', 'g']],
                   [['f'], ['g', 'f']], [['f', 'f'], ['f', 'f', 'f']],
                   [['f'], ['f'], ['f', 'g']], [['f', 'g', 'f']],
                   [['f', 'g'], ['g', 'f'], ['f']]):
        calls = [['preamble', 'Fix typo\n', None, 4, None, None],
                 ['meta', {'id': 'same'}, None]]
        for files in layout:
            calls += C([F(n) for n in files])
        docs.append(calls)
    # NEAR-equal big contents: same length, same first and last bytes,
    # one byte different at the start / in the middle / at the end
    for n in (129, 200, 1000, 70001):
        base = bytearray((b'+line %04d\n' * (n // 11 + 1))[:n - 1] + b'\n')
        variants = [bytes(base)]
        for pos in (1, 64, n // 2, n - 66, n - 2):
            if 0 < pos < n - 1:
                v = bytearray(base)
                v[pos] = ord('X') if v[pos] != ord('X') else ord('Y')
                variants.append(bytes(v))
        calls = [['change', None]]
        for k, d in enumerate(variants):
            calls += [['file', None], ['meta', {'path': 'same/long/path/to/'
                                                        'the/file.py'}, None],
                      ['diff', d, None, None, None]]
        calls += [['change', None], ['preamble', bytes(base).decode() * 1,
                                     None, 4, None, None]]
        for k, d in enumerate(variants[::-1]):
            calls += [['file', None], ['meta', {'path': 'same/long/path/to/'
                                                        'the/file.py'}, None],
                      ['diff', d, None, None, None]]
        docs.append(calls)
    return docs


def check_equal_doc(i):
    out = []
    for key, msg in check_calls(equal_section_docs()[i], 'utf-8', 'equal'):
        out.append((key, msg))
    return out


def check_scale(cfg, variant):
    from mc import wrgraph
    root, enc, le = variant
    calls = wrgraph.scale_calls(cfg, enc, le)
    return check_calls(calls, root, 'scale', 'scale %r' % (cfg,))


def check_calls(calls, root, tag, what=''):
    tree = tree_from_calls(calls, root)
    v = []
    try:
        data = tree.to_bytes()
    except Exception as e:
        return [('to-bytes-raised:%s:%s:%s' % (type(e).__name__,
                                               site_of(e), tag), repr(e))]
    want, recs = spec.serialize(calls, root)
    if data != want:
        i = next((k for k in range(min(len(data), len(want)))
                  if data[k] != want[k]), min(len(data), len(want)))
        v.append(('bytes-not-canonical:%s' % tag, 'first difference at byte '
                  '%d of %d/%d: wrote %r canonical %r'
                  % (i, len(data), len(want), data[max(0, i - 30):i + 40],
                     want[max(0, i - 30):i + 40])))
    try:
        back = DiffX.from_bytes(want)
    except Exception as e:
        v.append(('from-bytes-raised:%s:%s:%s' % (type(e).__name__,
                                                  site_of(e), tag), repr(e)))
        return v
    if freeze(snap(back)) != freeze(snap_from_records(recs)):
        v.append(('reloaded-tree-differs:%s:%s' % (first_diff(
            snap(back), snap_from_records(recs)), tag), what or tag))
    return v


SHAPES_Q = [(), (0,), (1,), (2,), (1, 1), (2, 1)]
SHAPES_T = SHAPES_Q + [(0, 1), (2, 2), (3,), (1, 1, 1)]


def plan(tier):
    shapes = SHAPES_Q if tier == 'quick' else SHAPES_T
    units = []
    for si, shape in enumerate(shapes):
        S = slots_for(shape)
        k = 2 if tier == 'quick' else 3
        if shape == (1,):
            k += 1
        if tier == 'thorough' and len(S) > 40:
            k = 2
        combos = []
        for r in range(0, k + 1):
            combos.extend(itertools.combinations(range(len(S)), r))
        # weight-balanced chunks
        step = 12 if k >= 3 else 40
        for i in range(0, len(combos), step):
            units.append((si, combos[i:i + step]))
    from mc import wrgraph
    units += [('scale',) + (u[1],) for u in wrgraph.scale_units(tier, 6)[0]]
    units.append(('rewrite',))
    units.append(('reparsed-edit',))
    units.append(('equal-sections',))
    units.append(('subclass',))
    return {
        'units': units,
        'rule': 'trees of shapes %r (files per change) built only through '
                'DiffX(), add_change(), add_file() and typed attributes; per '
                'section content from alphabets (12 texts, 5 metadata '
                'objects, 10 diffs incl. empty / no final newline / CRLF / '
                'header look-alikes / binary) and every option (encoding, '
                'preamble_* , meta_*, diff_*) as slots; every choice vector '
                'with <= k non-default slots (k=2, 3 for the one-file tree; '
                'thorough 3/4). Oracle for every tree whose to_bytes() '
                'succeeds: bytes == canonical serialisation of the tree by '
                'mc/spec.py; harness snapshot of from_bytes(bytes) == '
                'snapshot the documented normalisation gives; DOM == agrees '
                'with snapshot equality; to_bytes leaves the tree unchanged. '
                'Plus a rewrite pass: to_bytes(), ONE nested metadata container '
                'edited in place, to_bytes() again == bytes of a tree built '
                'from scratch in the new state. '
                'Plus a scale pass: trees whose sections take boundary sizes '
                '(counts, lines, widths around 96 / 1024 / 4096 / 8192 / 65536, '
                'indent, metadata width / depth). Non-trivial: >= 2 files or '
                'a non-default option.' % (shapes,),
        'bound': 'k deviations per tree as stated',
        'exhaustive': True,
        'assumptions': ['texts whose UTF-16/32 bytes contain a misaligned '
                        'newline pattern and texts not encodable in their '
                        'effective codec are outside the domain'],
    }


def rewrite_trees():
    """Trees with nested metadata at every level."""
    out = []
    for enc in ('utf-8', 'utf-16'):
        d = DiffX(encoding=enc, preamble='p\n',
                  meta={'k': ['v', {'n': 1}], 'stats': {'changes': 1},
                        'flat': 'x'})
        c = d.add_change(preamble='c\n',
                         meta={'revision': {'old': 'a', 'new': 'PENDING'},
                               'parent ids': ['p1']})
        c.add_file(meta={'path': {'old': 'a', 'new': 'b'},
                         'stats': {'insertions': 1}, 'l': [[1], [2]]},
                   diff=SAMPLE_DIFF)
        c.add_file(meta={'path': 'plain', 'tags': []})
        out.append(d)
    return out


def nested_edits(tree):
    """(label, function) for every nested container of every metadata."""
    from mc.domsnap import sections_of
    out = []
    for path, sec in sections_of(tree):
        if getattr(sec, 'data_type', None) is not dict or not sec._content:
            continue

        def walk(o, kp, path=path):
            items = o.items() if isinstance(o, dict) else enumerate(o)
            for k, v in list(items):
                if isinstance(v, (dict, list)):
                    out.append(('%s%r' % (path, kp + (k,)), path,
                                kp + (k,)))
                    walk(v, kp + (k,))
        walk(sec._content, ())
    return out


def check_subclass(order):
    """The object model documents subclasses of DiffX (diffx_cls): a tree of
    a subclass comes back as that subclass whatever other class parsed
    something earlier in the process."""
    class Sub(DiffX):
        extra = 'api'

    class Sibling(DiffX):
        pass
    base = DiffX(preamble='p\n', meta={'k': 'v'})
    base.add_change().add_file(meta={'path': 'f'}, diff=SAMPLE_DIFF)
    data = base.to_bytes()
    try:
        if order == 'base-first':
            DiffX.from_bytes(data)
        elif order == 'sibling-first':
            Sibling.from_bytes(data)
        t = Sub(preamble='p\n', meta={'k': 'v'})
        t.add_change().add_file(meta={'path': 'f'}, diff=SAMPLE_DIFF)
        back = Sub.from_bytes(t.to_bytes())
        again = DiffX.from_bytes(data)
    except Exception as e:
        return [('subclass-roundtrip-raised:%s:%s' % (type(e).__name__,
                                                      site_of(e)), repr(e))]
    v = []
    if type(back) is not Sub:
        v.append(('subclass-roundtrip-wrong-class',
                  '%s: Sub.from_bytes(...) returned a %s'
                  % (order, type(back).__name__)))
    elif fsnap(back) != fsnap(again) or \
            back.to_bytes() != t.to_bytes():
        v.append(('subclass-roundtrip-differs',
                  '%s: the subclass tree reads back differently from the '
                  'base-class tree of the same bytes' % order))
    if type(again) is not DiffX:
        v.append(('base-roundtrip-wrong-class',
                  '%s: DiffX.from_bytes(...) returned a %s'
                  % (order, type(again).__name__)))
    return v


def check_rewrite(ti, ei):
    """to_bytes(); edit ONE nested container in place; to_bytes() again:
    the second result is what a tree built from scratch in the new state
    gives, and parses back to the new state."""
    from mc.domsnap import tree_from_snap, sections_of

    def resolve(t, pth):
        return dict((p_, s_) for p_, s_ in sections_of(t))[pth]
    tree = rewrite_trees()[ti]
    label, path, kp = nested_edits(tree)[ei]
    try:
        first = tree.to_bytes()
        o = resolve(tree, path)._content
        for k in kp:
            o = o[k]
        if isinstance(o, list):
            o.append('edited')
        else:
            o['edited'] = True
        second = tree.to_bytes()
        fresh_t = tree_from_snap(snap(tree))
        want = fresh_t.to_bytes()
        back = DiffX.from_bytes(second)
    except Exception as e:
        return [('rewrite-raised:%s:%s' % (type(e).__name__, site_of(e)),
                 repr(e))]
    v = []
    if second != want:
        v.append(('second-to-bytes-stale' if second == first
                  else 'second-to-bytes-differs-from-fresh-tree',
                  'after to_bytes() and an in-place edit at %s the next '
                  'to_bytes() is not what a fresh tree in that state writes'
                  % label))
    elif fsnap(back) != fsnap(DiffX.from_bytes(want)):
        v.append(('reloaded-after-rewrite-differs', label))
    return v


OPTION_EDITS = {
    'preamble': [('indent', 2), ('mimetype', 'text/markdown'),
                 ('encoding', 'utf-8'), ('line_endings', 'dos')],
    'meta': [('encoding', 'utf-8'), ('format', 'json')],
    'diff': [('type', 'text'), ('encoding', 'latin-1'),
             ('line_endings', 'dos')],
    'container': [('encoding', 'latin-1')],
}


def reparse_trees():
    """Trees in which many sections carry EQUAL options and content (what a
    real multi-commit file looks like)."""
    out = list(rewrite_trees())
    d = DiffX(preamble='same\n', meta={'k': 'v'})
    for ci in range(2):
        c = d.add_change(preamble='same\n', meta={'k': 'v'})
        for fi in range(2):
            c.add_file(meta={'k': 'v'}, diff=SAMPLE_DIFF)
    out.append(d)
    return out


def reparse_edits(ti):
    from mc.domsnap import sections_of
    out = []
    for path, sec in sections_of(reparse_trees()[ti]):
        kind = path.rsplit('.', 1)[-1]
        if kind not in OPTION_EDITS:
            kind = 'container'
        for k, v in OPTION_EDITS[kind]:
            out.append((path, k, v))
    return out


def check_reparsed_edit(ti, ei):
    """The tree that parsing returns IS the tree that was written: setting
    one option on one of its sections and serialising gives the bytes that
    the same edit gives on a tree built through the constructors in the
    same state (and changes no other section)."""
    from mc.domsnap import tree_from_snap, sections_of
    from mc.observe import fresh
    path, k, val = reparse_edits(ti)[ei]

    def others(t):
        return [(p_, freeze(x.options), freeze(x._content)
                 if hasattr(x, '_content') else None)
                for p_, x in sections_of(t) if p_ != path]

    def edit(t):
        dict(sections_of(t))[path].options[fresh(k)] = fresh(val)
        try:
            return ('ok', t.to_bytes())
        except Exception as e:
            return ('raised', type(e).__name__)
    try:
        parsed = DiffX.from_bytes(reparse_trees()[ti].to_bytes())
        rebuilt = tree_from_snap(snap(parsed))
        if parsed.to_bytes() != rebuilt.to_bytes():
            return []       # reported by the round-trip units
        before = others(parsed)
        got = edit(parsed)
        want = edit(rebuilt)
        after = others(parsed)
    except Exception as e:
        return [('reparsed-edit-raised:%s:%s' % (type(e).__name__,
                                                 site_of(e)), repr(e))]
    v = []
    label = '%s.options[%r] = %r' % (path, k, val)
    if freeze(got) != freeze(want):
        v.append(('parsed-tree-edit-serialises-differently:%s'
                  % path.rsplit('.', 1)[-1].split('[')[0],
                  'after %s on the parsed tree to_bytes() gives %s; the same '
                  'edit on a constructor-built tree in the same state gives '
                  '%s' % (label, _short(got), _short(want))))
    # every other section is as it was
    if before != after:
        v.append(('parsed-tree-edit-changed-another-section', label))
    return v


def _short(x):
    r = repr(x)
    return r if len(r) < 400 else r[:200] + '...' + r[-180:]


def run_unit(unit, tier):
    acc = Acc()
    if unit[0] == 'reparsed-edit':
        for ti in range(len(reparse_trees())):
            for ei in range(len(reparse_edits(ti))):
                viols = check_reparsed_edit(ti, ei)
                acc.evals += 1
                acc.states += 1
                acc.transitions += 3
                acc.validated += 1
                acc.nontrivial += 1
                for key, msg in viols:
                    acc.violation(key, msg, {'kind': 'reparsed-edit',
                                             'ti': ti, 'ei': ei})
                acc.outcome('ok' if not viols else 'violation')
        acc.sample({'option_edits_on_parsed_trees':
                    [list(e) for e in reparse_edits(0)[:5]]}, 1)
        return acc
    if unit[0] == 'subclass':
        for order in ('base-first', 'sub-first', 'sibling-first'):
            viols = check_subclass(order)
            acc.evals += 1
            acc.states += 1
            acc.transitions += 3
            acc.validated += 1
            acc.nontrivial += 1
            for key, msg in viols:
                acc.violation(key, msg, {'kind': 'subclass', 'order': order})
            acc.outcome('ok' if not viols else 'violation')
        acc.sample({'subclasses_of_DiffX': 'round trip gives back the '
                                           'subclass'}, 1)
        return acc
    if unit[0] == 'equal-sections':
        for i in range(len(equal_section_docs())):
            viols = check_equal_doc(i)
            acc.evals += 1
            acc.states += 1
            acc.transitions += 2
            acc.validated += 1
            acc.nontrivial += 1
            for key, msg in viols:
                acc.violation(key, msg, {'kind': 'equal', 'i': i})
            acc.outcome('ok' if not viols else 'violation')
        acc.sample({'equal_sections': 'repeated equal files / preambles / '
                                      'metadata across changes'}, 1)
        return acc
    if unit[0] == 'rewrite':
        for ti in range(len(rewrite_trees())):
            for ei in range(len(nested_edits(rewrite_trees()[ti]))):
                viols = check_rewrite(ti, ei)
                acc.evals += 1
                acc.states += 1
                acc.transitions += 3
                acc.validated += 1
                acc.nontrivial += 1
                for key, msg in viols:
                    acc.violation(key, msg, {'kind': 'rewrite', 'ti': ti,
                                             'ei': ei})
                acc.outcome('ok' if not viols else 'violation')
        acc.sample({'rewrite_after_nested_edit':
                    [e[0] for e in nested_edits(rewrite_trees()[0])][:6]}, 1)
        return acc
    shapes = SHAPES_Q if tier == 'quick' else SHAPES_T
    if unit[0] == 'scale':
        from mc import wrgraph
        _, cfgs, variants = wrgraph.scale_units(tier, 6)
        for ci, vi in unit[1]:
            viols = check_scale(cfgs[ci], variants[vi])
            acc.evals += 1
            acc.states += 1
            acc.transitions += 2
            acc.validated += 1
            acc.nontrivial += 1
            for key, msg in viols:
                acc.violation(key, msg[:1500], {'kind': 'scale',
                                                'cfg': cfgs[ci],
                                                'variant': vi})
            acc.outcome('ok' if not viols else 'violation')
        acc.sample({'scale_configuration': cfgs[unit[1][0][0]]}, 1)
        return acc
    si, combos = unit
    shape = shapes[si]
    S = slots_for(shape)
    default = {}
    for path, attr, dom in S:
        default[(path, attr)] = dom[0]
    for combo in combos:
        alts = [range(1, len(S[i][2])) for i in combo]
        for choice in itertools.product(*alts):
            assign = dict(default)
            for i, c in zip(combo, choice):
                path, attr, dom = S[i]
                assign[(path, attr)] = dom[c]
            viols, cls = check_tree(shape, assign)
            acc.evals += 1
            acc.states += 1
            acc.transitions += 2
            acc.validated += 1
            if cls == 'ok' and (sum(shape) >= 2 or combo):
                acc.nontrivial += 1
            for key, msg in viols:
                acc.violation(key, msg, {
                    'kind': 'tree', 'shape': list(shape),
                    'assign': to_jsonable([[list(k[0]), k[1], v]
                                           for k, v in assign.items()
                                           if v is not None])})
            acc.outcome(cls if not viols else 'violation')
    acc.sample({'shape': list(shape),
                'slots': ['%s.%s' % ('/'.join(map(str, S[i][0])), S[i][1])
                          for i in combos[-1]]}, 1)
    return acc


def replay(payload):
    if payload.get('kind') == 'subclass':
        return [{'key': k, 'msg': m}
                for k, m in check_subclass(payload['order'])]
    if payload.get('kind') == 'equal':
        return [{'key': k, 'msg': m} for k, m in check_equal_doc(payload['i'])]
    if payload.get('kind') == 'reparsed-edit':
        return [{'key': k, 'msg': m} for k, m in check_reparsed_edit(
            payload['ti'], payload['ei'])]
    if payload.get('kind') == 'rewrite':
        return [{'key': k, 'msg': m}
                for k, m in check_rewrite(payload['ti'], payload['ei'])]
    if payload.get('kind') == 'scale':
        from mc import wrgraph
        variants = wrgraph.scale_units('quick', 6)[2]
        return [{'key': k, 'msg': m} for k, m in check_scale(
            payload['cfg'], variants[payload['variant']])]
    if payload.get('kind') != 'tree':
        return []
    assign = {}
    for path, attr, v in from_jsonable(payload['assign']):
        assign[(tuple(path), attr)] = v
    viols, cls = check_tree(tuple(payload['shape']), assign)
    return [{'key': k, 'msg': m} for k, m in viols]
