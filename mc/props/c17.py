"""C17 -- reader output independent of read-ahead chunking / alignment."""
import inspect
import io
import os

from pydiffx import DiffXReader
from pydiffx.errors import DiffXParseError

from mc import spec
from mc.explore import Acc
from mc.observe import rec_core, typed_eq, site_of
from mc.spec import to_jsonable, from_jsonable

ID = 'C17'
LEVEL = 'model_checking'

HAS_READ_UNTIL = hasattr(DiffXReader, '_read_until')
HAS_CHUNK_PARAM = HAS_READ_UNTIL and 'chunk_size' in inspect.signature(
    DiffXReader._read_until).parameters


class LoggedStream(object):
    """BytesIO wrapper: logs reads/seeks, forbids backward seeks beyond the
    start of the last read."""

    def __init__(self, data):
        self._b = io.BytesIO(data)
        self.last_read_start = 0
        self.violations = []
        self.in_until = False
        self.content_reads = []       # (pos, length requested, got)
        self.nreads = 0

    def read(self, n=-1):
        pos = self._b.tell()
        self.last_read_start = pos
        d = self._b.read(n)
        self.nreads += 1
        if not self.in_until:
            self.content_reads.append((pos, n, len(d)))
        return d

    def seek(self, off, whence=0):
        if whence == os.SEEK_CUR:
            target = self._b.tell() + off
        elif whence == os.SEEK_SET:
            target = off
        else:
            target = len(self._b.getvalue()) + off
        if target < self.last_read_start:
            self.violations.append('seek to %d, before the start (%d) of the '
                                   'last block read' % (target,
                                                        self.last_read_start))
        return self._b.seek(off, whence)

    def tell(self):
        return self._b.tell()

    def close(self):
        self._b.close()

    @property
    def closed(self):
        return self._b.closed


_CLS = {}


def reader_cls(block):
    """Reader whose read-ahead block size is `block` (None = default)."""
    if block in _CLS:
        return _CLS[block]
    if not HAS_READ_UNTIL:
        # the read-ahead routine was refactored away: only header alignment
        # can be varied (paddings); no byte accounting
        class R0(DiffXReader):
            pass
        _CLS[block] = R0
        return R0
    if block is None or not HAS_CHUNK_PARAM:
        class R(DiffXReader):
            def _read_until(self, c, *a, **k):
                fp = self._fp
                p0 = fp.tell()
                fp.in_until = True
                try:
                    res = DiffXReader._read_until(self, c, *a, **k)
                finally:
                    fp.in_until = False
                self._acct.append((p0, len(res[0]), fp.tell(), res[1]))
                return res
    else:
        class R(DiffXReader):
            def _read_until(self, c, *a, **k):
                # only the DEFAULT of chunk_size is replaced; whatever else
                # the library passes (a refactoring may add parameters) is
                # handed through
                if not a and 'chunk_size' not in k:
                    k['chunk_size'] = block
                fp = self._fp
                p0 = fp.tell()
                fp.in_until = True
                try:
                    res = DiffXReader._read_until(self, c, *a, **k)
                finally:
                    fp.in_until = False
                self._acct.append((p0, len(res[0]), fp.tell(), res[1]))
                return res
    _CLS[block] = R
    return R


STREAM_KINDS = ['buffered-16', 'buffered-40', 'buffered-96', 'buffered-97',
                'buffered-4096', 'buffered-8192', 'file', 'peekable',
                'prefixed-29', 'prefixed-4093', 'prefixed-buffered-72',
                'mmap', 'plain-wrapper', 'iobase-adapter',
                'says-unseekable', 'says-seekable']


class PlainWrapper(object):
    """A thin file-like wrapper as applications write them: it forwards
    read / seek / tell and returns nothing from seek()."""
    def __init__(self, data):
        self._s = io.BytesIO(data)
        self.closed = False

    def read(self, *a):
        return self._s.read(*a)

    def seek(self, *a):
        self._s.seek(*a)

    def tell(self):
        return self._s.tell()

    def close(self):
        self.closed = True

class IOBaseAdapter(io.BufferedIOBase):
    """An adapter derived from io.BufferedIOBase that implements read /
    seek / tell and leaves everything else to the base class -- whose
    seekable() / readable() answer False."""
    def __init__(self, data):
        io.BufferedIOBase.__init__(self)
        self._s = io.BytesIO(data)

    def read(self, n=-1):
        return self._s.read(n)

    def seek(self, off, whence=0):
        return self._s.seek(off, whence)

    def tell(self):
        return self._s.tell()


class Claims(PlainWrapper):
    """Wrapper with an explicit seekable() answer (seek works either way)."""
    answer = False

    def seekable(self):
        return self.answer

    def seek(self, *a):
        return self._s.seek(*a)


class ClaimsSeekable(Claims):
    answer = True


# what precedes the DiffX data in a 'prefixed' stream (a mail header, an
# export banner): consumed by the caller before the reader gets the stream
PREFIX_LINE = b'X-Exported-By: tool 1.0 (consumed by the caller)\n'



class Peekable(io.BytesIO):
    """In-memory stream that also offers peek() (like BufferedReader,
    gzip / bz2 files or HTTP responses); a short peek does NOT mean EOF."""
    def peek(self, n=0):
        pos = self.tell()
        d = io.BytesIO.read(self, min(n, 7) if n else 7)
        self.seek(pos)
        return d


_MMAP_FILES = []


def open_stream(data, kind):
    if kind.startswith('buffered-'):
        return io.BufferedReader(io.BytesIO(data),
                                 buffer_size=int(kind.split('-')[1]))
    if kind == 'peekable':
        return Peekable(data)
    if kind == 'plain-wrapper':
        return PlainWrapper(data)
    if kind == 'iobase-adapter':
        return IOBaseAdapter(data)
    if kind == 'says-unseekable':
        return Claims(data)
    if kind == 'says-seekable':
        return ClaimsSeekable(data)
    if kind == 'mmap':
        import mmap
        import tempfile
        f = tempfile.TemporaryFile()
        f.write(data or b'\n')
        f.flush()
        m = mmap.mmap(f.fileno(), 0, access=mmap.ACCESS_READ)
        f.close()           # (the mapping keeps its own descriptor)
        return m
    if kind.startswith('prefixed-'):
        n = int(kind.rsplit('-', 1)[1])
        prefix = (PREFIX_LINE * (n // len(PREFIX_LINE) + 1))[:n - 1] + b'\n'
        if 'buffered' in kind:
            st = io.BufferedReader(io.BytesIO(prefix + data), buffer_size=64)
        else:
            st = io.BytesIO(prefix + data)
        if st.read(n) != prefix:
            raise RuntimeError('prefix not consumed')
        return st
    if kind == 'file':
        import tempfile
        f = tempfile.TemporaryFile()
        f.write(data)
        f.flush()
        f.seek(0)
        return f
    return io.BytesIO(data)


def run_stream(data, kind):
    s = open_stream(data, kind)
    recs = []
    exc = None
    try:
        for rec in DiffXReader(s):
            recs.append(rec)
    except Exception as e:
        exc = e
    finally:
        try:
            s.close()
        except Exception:
            pass
    return recs, exc


def run(data, block):
    s = LoggedStream(data)
    r = reader_cls(block)(s)
    r._acct = []
    recs = []
    exc = None
    try:
        for rec in r:
            recs.append(rec)
    except Exception as e:
        exc = e
    v = list(s.violations)
    # consumed-byte accounting: header reads and content reads tile the file
    events = [(p0, n, p1, eof, 'h') for p0, n, p1, eof in r._acct]
    pos = 0
    ci = 0
    for p0, n, p1, eof in r._acct:
        # content reads that happened before this header read
        while ci < len(s.content_reads) and s.content_reads[ci][0] <= p0 \
                and _before(s.content_reads[ci], p0):
            cp, want, got = s.content_reads[ci]
            if cp != pos:
                v.append('content read starts at %d, expected %d' % (cp, pos))
            pos = cp + got
            ci += 1
        if p0 != pos:
            v.append('header read starts at %d, expected %d' % (p0, pos))
        if not eof and p1 != p0 + n:
            v.append('after a header read of %d bytes at %d the stream is at '
                     '%d' % (n, p0, p1))
        pos = p0 + n
    return recs, exc, v


def _before(cr, p0):
    return cr[0] + cr[2] <= p0


def long_opt(n):
    return 'x' * n


def base_files():
    P = ['preamble', 'line one\nline two\n', None, 4, None, None]
    M = ['meta', {'path': 'a/b.c', 'n': [1, 2, 3]}, None]
    D = ['diff', b'--- a\n+++ b\n@@ -1 +1 @@\n-x\n+y\n', None, None, None]
    files = []
    b, _ = spec.serialize([P, M, ['change', None], P, M, ['file', None], M, D,
                           ['file', None], M], 'utf-8')
    files.append(('simple', b))
    # long headers: an unknown 200-char option on every header
    lines = b.split(b'\n')
    out = []
    for ln in lines:
        if ln.startswith(b'#') and ln.endswith(b':'):
            ln += b' q=' + b'y' * 200
        elif ln.startswith(b'#'):
            ln += b', q=' + b'y' * 200
        out.append(ln)
    files.append(('long-headers', b'\n'.join(out)))
    longline = 'L' * 230 + '\n' + 'M' * 97 + '\n' + 'N' * 95 + '\n'
    b3, _ = spec.serialize([['preamble', longline, None, 0, None, None],
                            ['change', None], ['file', None], M,
                            ['diff', longline.encode() * 2, None, None,
                             None]], 'utf-8')
    files.append(('long-content', b3))
    stairs = b''.join(b'z' * k + b'\n' for k in range(0, 24))
    b4, _ = spec.serialize([['change', None], ['file', None], M,
                            ['diff', stairs, None, None, None],
                            ['file', None], M,
                            ['diff', stairs[::-1] + b'\n', None, None, None]],
                           'utf-8')
    files.append(('newline-stairs', b4))
    b5, _ = spec.serialize([['preamble', 'héllo\nwörld\n', None, 4,
                             None, None], M, ['change', 'utf-32'],
                            ['preamble', 'x\r\ny\r\n', None, 2, None, None],
                            ['file', None], M,
                            ['diff', 'a\r\n'.encode('utf-16'), None,
                             'utf-16', None]], 'utf-16')
    files.append(('utf16', b5))
    files.append(('crlf-headers', _crlf_headers(b)))
    files.append(('blank-lines', _blank_lines(b)))
    b8, _ = spec.serialize([['change', None], ['file', None], M,
                            ['change', None]], 'utf-8')
    files.append(('ends-in-container', b8 + b'\n\n'))
    files.append(varying_lengths_file())
    # CRLF headers over contents full of CR bytes that are NOT followed by
    # LF (runs of lone CRs declared unix, UTF-16 dos text): whatever byte a
    # read-ahead block ends on, a CR there is content, not half a header
    # terminator
    crs = '\r' * 230 + 'end\n'
    b9, _ = spec.serialize([['preamble', crs, None, 0, 'unix', None],
                            ['change', None],
                            ['preamble', 'a\rb\r\rc\n' * 30, None, 2, 'unix',
                             None],
                            ['file', None], M,
                            ['diff', b'\r' * 230 + b'\n' + b'\rx' * 100 +
                             b'\n', None, None, 'unix'],
                            ['file', None], M,
                            ['diff', ('q\r\n' * 40).encode('utf-16'), None,
                             'utf-16', 'dos']], 'utf-8')
    files.append(('crlf-headers-cr-contents', _crlf_headers(b9)))
    files.append(('crlf-headers-utf16', _crlf_headers(b5)))
    return files


def varying_lengths_file():
    """Same-stage headers whose lengths differ by 1..3 bytes in both
    directions (4-digit then 2-digit lengths, 10 then 9), contents that
    start with a newline / with "{" + newline."""
    big = {'path': 'f', 'blob': ['v' * 40] * 30}
    calls = [['preamble', '\n\nstarts blank\n', None, 0, None, None],
             ['change', None],
             ['preamble', '\nnine\n'[:9] + 'x' * 3 + '\n', None, 0, None,
              None],
             ['file', None], ['meta', big, None],
             ['diff', b'\n' * 3 + b'x' * 996 + b'\n', None, None, None],
             ['file', None], ['meta', {'p': 'q'}, None],
             ['diff', b'\n' * 3 + b'y' * 6 + b'\n', None, None, None],
             ['file', None], ['meta', big, None],
             ['diff', b'\nz\n', None, None, None],
             ['change', None],
             ['preamble', '\n\n\nabc\n' * 30, None, 0, None, None],
             ['file', None], ['meta', {'p': 'r'}, None],
             ['file', None], ['meta', {'p': 'r' * 100}, None]]
    b, _ = spec.serialize(calls, 'utf-8')
    return ('varying-lengths', b)


def _crlf_headers(data):
    """Rewrite header lines (only) with CRLF terminators."""
    recs, err = spec.parse(data)
    assert err is None
    out = []
    pos = 0
    for ln in _sections(data):
        hdr, body = ln
        out.append(hdr[:-1] + b'\r\n' + body)
    return b''.join(out)


def _blank_lines(data):
    out = []
    for i, (hdr, body) in enumerate(_sections(data)):
        out.append((b'\n' if i % 2 else b'  \n\n') + hdr + body)
    return b''.join(out) + b'\n \n'


def _sections(data):
    """Split a canonical file into (header line, body) pairs using lengths."""
    pos = 0
    out = []
    while pos < len(data):
        j = data.index(b'\n', pos)
        hdr = data[pos:j + 1]
        sid, opts = spec.parse_header_line(hdr[:-1])
        n = opts.get('length', 0) if sid in spec.CONTENT_IDS else 0
        out.append((hdr, data[j + 1:j + 1 + n]))
        pos = j + 1 + n
    return out


def pad_file(data, pad):
    """Lengthen the first header by exactly `pad` bytes (pad = 0 or >= 5)."""
    if pad == 0:
        return data
    j = data.index(b'\n', data.index(b'#'))
    eol = j - 1 if data[j - 1:j] == b'\r' else j
    return data[:eol] + b', z=' + b'a' * (pad - 4) + data[eol:]


PADS = [0] + list(range(5, 198))
BLOCKS_Q = list(range(1, 17)) + [47, 48, 49, 95, 96, 97, 191, 192, 193,
                                 10 ** 6]
BLOCKS_T = list(range(1, 200)) + [255, 256, 257, 10 ** 6]


SCALE_HEADER_LENS = [1023, 1024, 1025, 1056, 4095, 4096, 4097, 4128, 8191,
                     8192, 8193, 65535, 65536, 65537]
SCALE_BLOCKS = [None, 1, 7, 64, 96, 103, 199, 1024, 4096, 65536]
SCALE_BLANKS = [1, 95, 96, 97, 1000, 1100, 5000]


def scale_cases():
    """(label, data) -- headers of boundary lengths at the first and at a
    later position, long runs of blank lines, many sections."""
    name, base = base_files()[0]
    recs, err = spec.parse(base)
    out = []
    first_nl = base.index(b'\n')
    second = base.index(b'#.meta:')
    second_nl = base.index(b'\n', second)
    for n in SCALE_HEADER_LENS:
        pad1 = n - first_nl
        if pad1 >= 5:
            out.append(('first-header-%d' % n, pad_file(base, pad1)))
        # lengthen the 3rd header (a content header) to exactly n bytes
        cur = second_nl - second
        if n - cur >= 5:
            d2 = base[:second_nl] + b', z=' + b'a' * (n - cur - 4) + \
                base[second_nl:]
            out.append(('later-header-%d' % n, d2))
    for k in SCALE_BLANKS:
        out.append(('blank-run-%d' % k, base[:first_nl + 1] + b'\n' * k +
                    base[first_nl + 1:]))
        out.append(('blank-ws-run-%d' % k, base[:second] + b' \n' * k +
                    base[second:]))
        out.append(('blank-tail-%d' % k, base + b'\n' * k))
    many = base[:first_nl + 1] + (b'#.change:\n#..file:\n#...meta: length=11'
                                  b'\n{"a": "x"}\n') * 1500
    out.append(('many-sections', many))
    return out


def plan(tier):
    files = base_files()
    blocks = BLOCKS_Q if tier == 'quick' else BLOCKS_T
    units = []
    for fi in range(len(files)):
        for i in range(0, len(blocks), 4):
            units.append((fi, blocks[i:i + 4]))
    nsc = len(scale_cases())
    for lo in range(0, nsc, 3):
        units.append(('scale', lo, min(lo + 3, nsc)))
    for fi in range(len(stream_files())):
        for kind in STREAM_KINDS:
            units.append(('streams', fi, kind))
    return {
        'units': units,
        'rule': '%d base files (simple, 200-byte headers, 230-char content '
                'lines, newline at every residue, UTF-16/32 content, CRLF '
                'headers, CRLF headers over contents full of lone CRs / UTF-16, blank lines, ends in a container) x %d paddings '
                'of the first header (0 and 5..197 bytes, shifting every '
                'later header through every alignment) x %d read-ahead '
                'block sizes (injected by a subclass overriding the default '
                'argument of _read_until; chunk_size parameter present: %s), '
                'over an instrumented stream. Oracle: records equal those of '
                'the unpadded file at the default block size and the '
                'reference parse; no backward seek beyond the last block; '
                'header reads and content reads tile the file exactly once. '
                'Scale pass: first and later headers of 1023..65537 bytes, runs '
                'of 1..5000 blank lines, 1500 sections, x block sizes {default, '
                '1, 7, 64, 96, 103, 199, 1024, 4096, 65536}. '
                'Stream kinds: every file (plus two whose later headers lie '
                'just after offsets 4096 / 8192) x every padding read through '
                'io.BufferedReader with buffer sizes 16 / 40 / 96 / 97 / 4096 / '
                '8192, a real temporary file, a peek()-capable in-memory '
                'stream, mmap, thin wrappers (seek() returning None, '
                'seekable() answering False / True, an io.BufferedIOBase '
                'adapter with the base class\'s answers), and streams whose first 29 / 72 / 4093 bytes were '
                'consumed by the caller before the reader got them. Non-trivial: some header line is at least one block '
                'long.'
                % (len(files), len(PADS), len(blocks), HAS_CHUNK_PARAM),
        'bound': 'pads 0..197 x blocks %s' % ('quick list' if tier == 'quick'
                                              else '1..199,255-257,1e6'),
        'exhaustive': True,
        'assumptions': ['streams deliver full reads and support relative '
                        'seek (BytesIO, BufferedReader, files); raw streams '
                        'with short reads are outside the statement'],
    }


def strip_pad(recs):
    out = []
    for r in recs:
        r = dict(r)
        r['options'] = {k: v for k, v in r['options'].items() if k != 'z'}
        out.append(rec_core(r))
    return out


def check_case(name, data, pad, block, ref):
    padded = pad_file(data, pad)
    recs, exc, sv = run(padded, block)
    v = []
    # Stream-discipline observations (backward seeks beyond the last block,
    # header/content reads not tiling the file) are recorded as notes only:
    # the property is about the records; a reader that buffers instead of
    # seeking would be legitimate.
    notes = len(sv)
    if exc is not None:
        v.append(('raised:%s:%s' % (type(exc).__name__, site_of(exc)),
                  repr(exc)))
    elif not typed_eq(strip_pad(recs), ref):
        n = min(len(recs), len(ref))
        idx = next((i for i in range(n)
                    if not typed_eq(strip_pad(recs)[i], ref[i])), n)
        v.append(('records-differ', 'first difference at record %d: %r vs %r'
                  % (idx, strip_pad(recs)[idx:idx + 1], ref[idx:idx + 1])))
    return v, (padded, notes)


def stream_files():
    """Base files plus one whose later headers lie just after offset 8192
    (the default buffer size of open()) and one just after 4096."""
    from mc.alphabets import sized_text
    out = list(base_files())
    M = ['meta', {'path': 'f'}, None]
    for n in (4000, 8100):
        b, _ = spec.serialize([
            ['preamble', sized_text(n, 'lines'), None, 0, None, None],
            ['change', None], ['file', None], M,
            ['diff', b'a\nb\n', None, None, None], ['file', None], M,
            ['change', 'utf-8'], ['file', None], M], 'utf-8')
        out.append(('after-%d' % n, b))
    return out


def check_stream_case(name, data, pad, kind, ref):
    padded = pad_file(data, pad)
    recs, exc = run_stream(padded, kind)
    v = []
    if exc is not None:
        v.append(('stream-kind-raised:%s:%s' % (type(exc).__name__,
                                                site_of(exc)),
                  'file %s pad %d through %s: %r' % (name, pad, kind, exc)))
    elif not typed_eq(strip_pad(recs), ref):
        v.append(('records-depend-on-stream-kind',
                  'file %s pad %d through %s: %d records, expected %d'
                  % (name, pad, kind, len(recs), len(ref))))
    return v


def check_scale_case(label, data, block):
    """Records of a scale case at `block` == records at the default block
    size == strict reference reading."""
    recs0, exc0, _ = run(data, None)
    pref, perr = spec.parse(data)
    v = []
    if perr is not None:
        return [('harness:reference-rejects-scale-case', label)]
    if exc0 is not None:
        return [('scale-raised:%s:%s' % (type(exc0).__name__,
                                         site_of(exc0)),
                 '%s at the default block size: %r' % (label, exc0))]
    ref = [rec_core(r) for r in recs0]
    want = [rec_core(r) for r in pref]
    if not typed_eq(ref, want):
        v.append(('scale-records-differ-from-reference',
                  '%s: %d records vs %d' % (label, len(ref), len(want))))
    if block is not None:
        recs, exc, _ = run(data, block)
        if exc is not None:
            v.append(('scale-raised:%s:%s' % (type(exc).__name__,
                                              site_of(exc)),
                      '%s with block size %r: %r' % (label, block, exc)))
        elif not typed_eq([rec_core(r) for r in recs], ref):
            v.append(('scale-records-depend-on-block-size',
                      '%s with block size %r' % (label, block)))
    return v


def run_unit(unit, tier):
    if unit[0] == 'scale':
        acc = Acc()
        cases = scale_cases()[unit[1]:unit[2]]
        for label, data in cases:
            for block in SCALE_BLOCKS:
                if block == 1 and len(data) > 20000:
                    block = 3
                viols = check_scale_case(label, data, block)
                acc.evals += 1
                acc.states += 1
                acc.transitions += 2
                acc.validated += 1
                acc.nontrivial += 1
                for key, msg in viols:
                    acc.violation(key, msg, {'kind': 'scale',
                                             'label': label, 'block': block})
                acc.outcome('ok' if not viols else 'violation')
        acc.sample({'scale_cases': [c[0] for c in cases],
                    'blocks': [b for b in SCALE_BLOCKS]}, 1)
        return acc
    if unit[0] == 'streams':
        acc = Acc()
        _, fi, kind = unit
        name, data = stream_files()[fi]
        recs0, exc0, _ = run(data, None)
        ref = [rec_core(r) for r in recs0]
        for pad in PADS:
            viols = check_stream_case(name, data, pad, kind, ref)
            acc.evals += 1
            acc.states += 1
            acc.transitions += 1
            acc.validated += 1
            acc.nontrivial += 1
            for key, msg in viols:
                acc.violation(key, msg, {'kind': 'stream', 'file': fi,
                                         'pad': pad, 'stream': kind})
            acc.outcome('ok' if not viols else 'violation')
        acc.sample({'file': name, 'stream_kind': kind}, 1)
        return acc
    fi, blocks = unit
    name, data = base_files()[fi]
    acc = Acc()
    recs0, exc0, sv0 = run(data, None)
    ref = [rec_core(r) for r in recs0]
    prec, perr = spec.parse(data)
    if exc0 is not None or perr is not None:
        acc.violation('base-file-rejected:%s' % name,
                      'reader %r / reference %r' % (exc0, perr),
                      {'kind': 'case', 'file': fi, 'pad': 0, 'block': None})
        return acc
    # the reference parser agrees with the default run (content + ids)
    if [(r['section'], r.get('text', r.get('metadata', r.get('diff'))))
            for r in prec] != \
            [(r['section'], r.get('text', r.get('metadata', r.get('diff'))))
             for r in recs0]:
        acc.violation('base-differs-from-reference:%s' % name, '',
                      {'kind': 'case', 'file': fi, 'pad': 0, 'block': None})
    hdr_lens = None
    for block in blocks:
        for pad in PADS:
            viols, (padded, notes) = check_case(name, data, pad, block, ref)
            if notes:
                acc.outcome('stream-discipline-note', notes)
            acc.evals += 1
            acc.states += 1
            acc.transitions += 1
            acc.validated += 1
            if pad + 36 >= block:
                acc.nontrivial += 1
            for key, msg in viols:
                acc.violation(key, '%s\nfile %s pad %d block %r'
                              % (msg, name, pad, block),
                              {'kind': 'case', 'file': fi, 'pad': pad,
                               'block': block})
            acc.outcome('ok' if not viols else 'violation')
    acc.sample({'file': name, 'pads': '0,5..197', 'blocks': blocks}, 1)
    return acc


def replay(payload):
    if payload.get('kind') == 'stream':
        name, data = stream_files()[payload['file']]
        recs0, exc0, _ = run(data, None)
        ref = [rec_core(r) for r in recs0]
        return [{'key': k, 'msg': m} for k, m in check_stream_case(
            name, data, payload['pad'], payload['stream'], ref)]
    if payload.get('kind') == 'scale':
        data = dict(scale_cases())[payload['label']]
        return [{'key': k, 'msg': m} for k, m in check_scale_case(
            payload['label'], data, payload['block'])]
    if payload.get('kind') != 'case':
        return []
    name, data = base_files()[payload['file']]
    recs0, exc0, sv0 = run(data, None)
    ref = [rec_core(r) for r in recs0]
    viols, _ = check_case(name, data, payload['pad'], payload['block'], ref)
    return [{'key': k.replace(' ', '_')[:200], 'msg': m} for k, m in viols]
