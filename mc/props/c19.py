"""C19 -- typed attributes validate atomically; equality is structural."""
import copy
import itertools

from pydiffx.dom import DiffX

from mc.domsnap import snap, fsnap, build_tree, sections_of, SAMPLE_DIFF
from mc.explore import Acc, freeze
from mc.observe import site_of
from mc.spec import to_jsonable, from_jsonable

ID = 'C19'
LEVEL = 'model_checking'

LE = ['unix', 'dos']
MIME = ['text/plain', 'text/markdown']
DT = ['text', 'binary']

# Declared type and choices, transcribed from the attribute documentation in
# pydiffx/dom/objects.py class docstrings (NOT from properties.py).
#   name -> (type, choices or None, (section attr, option key or 'content'))
PREAMBLE_ATTRS = {
    'preamble': (str, None, ('preamble_section', 'content')),
    'preamble_encoding': (str, None, ('preamble_section', 'encoding')),
    'preamble_indent': (int, None, ('preamble_section', 'indent')),
    'preamble_line_endings': (str, LE, ('preamble_section', 'line_endings')),
    'preamble_mimetype': (str, MIME, ('preamble_section', 'mimetype')),
}
META_ATTRS = {
    'meta': (dict, None, ('meta_section', 'content')),
    'meta_encoding': (str, None, ('meta_section', 'encoding')),
    'meta_format': (str, ['json'], ('meta_section', 'format')),
}
DIFF_ATTRS = {
    'diff': (bytes, None, ('diff_section', 'content')),
    'diff_encoding': (str, None, ('diff_section', 'encoding')),
    'diff_line_endings': (str, LE, ('diff_section', 'line_endings')),
    'diff_type': (str, DT, ('diff_section', 'type')),
}
ENC = {'encoding': (str, None, (None, 'encoding'))}
ATTRS = {
    'diffx': dict(ENC, version=(str, ['1.0'], (None, 'version')),
                  **dict(PREAMBLE_ATTRS, **META_ATTRS)),
    'change': dict(ENC, **dict(PREAMBLE_ATTRS, **META_ATTRS)),
    'file': dict(ENC, **dict(META_ATTRS, **DIFF_ATTRS)),
    # content sections addressed directly
    'preamble': {'content': (str, None, (None, 'content')),
                 'encoding': (str, None, (None, 'encoding')),
                 'indent': (int, None, (None, 'indent')),
                 'line_endings': (str, LE, (None, 'line_endings')),
                 'mimetype': (str, MIME, (None, 'mimetype'))},
    'meta': {'content': (dict, None, (None, 'content')),
             'encoding': (str, None, (None, 'encoding')),
             'format': (str, ['json'], (None, 'format'))},
    'diff': {'content': (bytes, None, (None, 'content')),
             'encoding': (str, None, (None, 'encoding')),
             'line_endings': (str, LE, (None, 'line_endings')),
             'type': (str, DT, (None, 'type'))},
}
UNKNOWN = {
    'diffx': ['foo', 'Encoding', 'diff', 'diff_type', 'length', 'preamble_foo'],
    'change': ['foo', 'version', 'diff', 'diff_encoding', 'files_', 'mimetype'],
    'file': ['foo', 'version', 'preamble', 'preamble_indent', 'type',
             'line_endings'],
}

# two metadata objects that Python's == cannot tell apart but that are
# different JSON values (1 / true / 1.0): assigning one over the other is a
# real change
TWIN_A = {'mode': 1, 'n': [0, 1.0, {'deep': 1}], 'k': 'v'}
TWIN_B = {'mode': True, 'n': [False, 1, {'deep': 1.0}], 'k': 'v'}
VALUES = {
    str: ['utf-8', 'latin-1'],
    int: [0, 7],
    dict: [{'a': 'x'}, {'b': [1, {'c': None}]}, TWIN_B, TWIN_A, {}],
    bytes: [b'a\n', SAMPLE_DIFF],
}
import enum
import collections


class StrSub(str):
    pass


class StrLoud(str):
    """str subclass whose str() differs from its data."""
    def __str__(self):
        return 'LOUD<%s>' % str.__str__(self)

    def __repr__(self):
        return 'StrLoud(%s)' % str.__repr__(self)


class LE_(str, enum.Enum):
    DOS = 'dos'
    UNIX = 'unix'
    JSON = 'json'
    V10 = '1.0'
    TEXT = 'text'
    PLAIN = 'text/plain'
    UTF8 = 'utf-8'


class IntSub(int):
    pass


class Level(enum.IntEnum):
    TWO = 2


class BytesSub(bytes):
    pass


def subclass_candidates(typ, choices):
    """Values whose type is a SUBCLASS of the declared type and whose value
    is valid. The statement: the assignment either stores a value of the
    declared type and allowed choice, or raises and leaves the tree
    unchanged."""
    if typ is str:
        base = list(choices) if choices else ['utf-8']
        out = []
        for b in base[:2]:
            out += [StrSub(b), StrLoud(b)]
            for m in LE_:
                if m.value == b:
                    out.append(m)
        return out
    if typ is int:
        return [IntSub(3), Level.TWO, True]
    if typ is dict:
        return [collections.OrderedDict([('b', 'x'), ('a', 'y')]),
                collections.defaultdict(list, {'a': 'x'})]
    if typ is bytes:
        return [BytesSub(b'a\n')]
    return []


# values of the right type whose acceptance is not documented either way
EDGE = {
    str: ['', ' ', 'no such codec', 'UTF-8'],
    int: [-1, -4, 10 ** 12],
    dict: [{}, {1: 'non-string key'}],
    bytes: [b''],
}
WRONG = {
    str: [5, b'utf-8', None, {'a': 1}, ['utf-8'], 2.5],
    int: ['4', None, 2.5, b'4', [4]],
    dict: [[('a', 1)], 'x', None, 5, b'{}'],
    bytes: ['a\n', None, bytearray(b'a\n'), 5, [b'a']],
}


def base_specs(tier):
    """Tree specifications reachable in <= 3 (thorough 4) construct/add
    operations with a few attribute sets."""
    mains = [{}, {'preamble': 'p\n', 'meta': {'k': 'v'}},
             {'encoding': 'utf-16', 'preamble': 'q\n',
              'preamble_indent': 2, 'preamble_mimetype': 'text/markdown'}]
    changes = [{}, {'preamble': 'c\n', 'meta': {'id': 'x'},
                    'encoding': 'latin-1'}]
    files = [{'meta': {'path': 'f'}},
             {'meta': {'path': 'g'}, 'diff': SAMPLE_DIFF,
              'diff_type': 'text', 'diff_line_endings': 'unix'},
             {'meta': {'path': 'h'}, 'diff': b'b\r\n',
              'diff_encoding': 'utf-8', 'meta_encoding': 'utf-32'}]
    out = []
    for m in mains:
        out.append({'main': m})
        for c in changes:
            out.append({'main': m, 'changes': [{'attrs': c}]})
            for f in files:
                out.append({'main': m,
                            'changes': [{'attrs': c, 'files': [f]}]})
    out.append({'changes': [{'files': [files[0], files[1]]}]})
    out.append({'changes': [{'files': [files[1]]}, {'files': [files[2]]}]})
    out.append({'main': mains[1],
                'changes': [{'attrs': changes[1], 'files': [files[1],
                                                            files[2]]},
                            {'files': [files[0]]}]})
    # every metadata is TWIN_A (so that assigning TWIN_B replaces an ==
    # object) / empty (so that assigning {} replaces an equal object)
    out.append({'main': {'meta': TWIN_A, 'preamble': 'p\n'},
                'changes': [{'attrs': {'meta': TWIN_A},
                             'files': [{'meta': TWIN_A}, {'meta': TWIN_B}]},
                            {'attrs': {}, 'files': [{'meta': {'p': 1}}]}]})
    # trees reached by parsing (options arrive verbatim from headers)
    from mc import spec as _spec
    fa, _ = _spec.serialize([
        ['preamble', 'top\n', None, 4, None, 'text/markdown'],
        ['meta', {'k': ['v']}, None], ['change', 'latin-1'],
        ['preamble', 'c1\r\n', None, 2, 'dos', None],
        ['meta', {'id': 'abc'}, 'utf-16'], ['file', None],
        ['meta', {'path': 'f'}, None],
        ['diff', SAMPLE_DIFF, 'text', 'utf-8', 'unix'],
        ['file', 'utf-16'], ['meta', {'path': 'g'}, None]], 'utf-8')
    fb, _ = _spec.serialize([
        ['change', None], ['file', None], ['meta', {'path': 'h'}, None],
        ['diff', b'x\r\n', 'binary', None, None]], 'utf-16')
    out.append({'parse': fa})
    out.append({'parse': fb})
    # scale: deep metadata, large content, many files / changes
    deep = {'leaf': [1, 'two', None]}
    for i in range(9):
        deep = {'level-%d' % i: deep, 'l': [deep, {'k%d' % i: i}]}
    big = {'_big': True, 'main': {'meta': {'deep': deep, 'wide': {('k%04d' % i): 'v' * 40
                                                    for i in range(60)}},
                    'preamble': 'line\n' * 300},
           'changes': [{'attrs': {'meta': {'id': 'c%d' % c}},
                        'files': [{'meta': {'path': 'f%d-%d' % (c, f)},
                                   'diff': (b'@@ -1 +1 @@\n-a\n+b\n' * 500
                                            if f == 2 else SAMPLE_DIFF)}
                                  for f in range(4)]}
                       for c in range(3)]}
    out.append(big)
    if tier == 'thorough':
        for m in mains:
            for c1 in changes:
                for f1 in files:
                    for f2 in files:
                        out.append({'main': m, 'changes': [
                            {'attrs': c1, 'files': [f1, f2]}]})
                    for c2 in changes:
                        out.append({'main': m, 'changes': [
                            {'attrs': c1, 'files': [f1]},
                            {'attrs': c2, 'files': [files[0]]}]})
    return out


def targets(tree):
    """(path, kind, object) for every section whose attributes we assign."""
    out = []
    for path, sec in sections_of(tree):
        kind = sec.section_name or 'diffx'
        out.append((path, kind, sec))
    return out


def resolve(tree, path):
    return dict((p, s) for p, s in sections_of(tree))[path]


def stored_value(sec, kind, name):
    typ, choices, (sub, key) = ATTRS[kind][name]
    target = getattr(sec, sub) if sub else sec
    if key == 'content':
        return target._content
    return target.options.get(key, '<unset>')


def check_assign(spec_, path, kind, name, value, valid):
    """One assignment on a fresh tree. Returns violations."""
    tree = build_tree(spec_)
    sec = resolve(tree, path)
    before = snap(tree)
    v = []
    try:
        setattr(sec, name, value if valid == 'subclass'
                else copy.deepcopy(value))
        exc = None
    except Exception as e:
        exc = e
    after = snap(tree)
    tag = '%s.%s' % (kind, name)
    if valid == 'subclass':
        typ, choices, where = ATTRS[kind][name]
        if exc is not None:
            if freeze(after) != freeze(before):
                v.append(('rejected-assignment-changed-tree:%s' % tag,
                          '%s = %r raised %r but the tree changed'
                          % (name, value, exc)))
            return v
        stored = stored_value(sec, kind, name)
        ok = isinstance(stored, typ) and stored == value and \
            getattr(sec, name) == value
        if choices and ok:
            ok = any(type(stored) in (str, type(value)) and stored == c
                     for c in choices)
        if not ok:
            v.append(('subclass-value-stored-wrongly:%s:%s' % (
                tag, type(value).__name__),
                '%s = %r (%s) at %s was accepted but the section now holds '
                '%r' % (name, value, type(value).__name__, path, stored)))
        return v
    if valid is None:
        # value of the declared type whose acceptance the documentation does
        # not settle (negative indent, empty string, ...): either outcome is
        # fine, but it must be one of the two, atomically
        valid = exc is None
    if valid:
        if exc is not None:
            v.append(('valid-value-rejected:%s' % tag,
                      '%s = %r at %s raised %r' % (name, value, path, exc)))
            return v
        got = getattr(sec, name)
        if freeze(got) != freeze(value):
            v.append(('getter-differs:%s' % tag, 'set %r, got %r'
                      % (value, got)))
        if freeze(stored_value(sec, kind, name)) != freeze(value):
            v.append(('not-stored:%s' % tag, 'options/content hold %r'
                      % (stored_value(sec, kind, name),)))
        # snapshot differs in exactly that field
        exp = _with_field(before, tree, sec, kind, name, value)
        if freeze(after) != freeze(exp):
            v.append(('assignment-touched-other-field:%s' % tag,
                      'after %s = %r at %s the tree differs elsewhere'
                      % (name, value, path)))
    else:
        if exc is None:
            v.append(('invalid-value-accepted:%s:%s' % (
                tag, type(value).__name__ if not isinstance(value, str)
                else 'str-choice'),
                '%s = %r at %s was accepted' % (name, value, path)))
        elif freeze(after) != freeze(before):
            v.append(('rejected-assignment-changed-tree:%s' % tag,
                      '%s = %r at %s raised %r but the tree changed'
                      % (name, value, path, exc)))
    return v


def _with_field(before, tree, sec, kind, name, value):
    """Expected snapshot: `before` with exactly the addressed field set."""
    exp = copy.deepcopy(before)
    # locate the snapshot node of `sec`
    t2 = tree
    typ, choices, (sub, key) = ATTRS[kind][name]
    target = getattr(sec, sub) if sub else sec
    node = _snap_node(exp, tree, target)
    if key == 'content':
        node['content'] = copy.deepcopy(value)
    else:
        node['options'][key] = copy.deepcopy(value)
    return exp


def _snap_node(s, tree, target):
    if target is tree:
        return s
    if target is tree.preamble_section:
        return s['preamble']
    if target is tree.meta_section:
        return s['meta']
    for ci, c in enumerate(tree.changes):
        cs = s['changes'][ci]
        if target is c:
            return cs
        if target is c.preamble_section:
            return cs['preamble']
        if target is c.meta_section:
            return cs['meta']
        for fi, f in enumerate(c.files):
            fs = cs['files'][fi]
            if target is f:
                return fs
            if target is f.meta_section:
                return fs['meta']
            if target is f.diff_section:
                return fs['diff']
    raise KeyError(target)


def near_choices(choices):
    """Strings one small edit away from an allowed choice: every ASCII
    punctuation / whitespace / NUL character appended, prepended or followed
    by a parameter, case variants, truncations, doublings, joined choices."""
    import string
    out = []
    seen = set(choices)

    def add(x):
        if x not in seen:
            seen.add(x)
            out.append(x)
    add('')
    for c in choices:
        for p in string.punctuation + ' \t\n\r\x00\xa0':
            add(c + p)
            add(p + c)
            add(c + p + ' charset=utf-8')
            add(c + p + c)
        add(c.title())
        add(c.capitalize())
        add(c.swapcase())
        add(c[:-1])
        add(c[1:])
        add(c + c[-1])
        add(c + c)
        for part in c.replace('/', ' ').replace('-', ' ').split():
            add(part)
        for o in choices:
            for sep in (',', ';', ' ', '|', '/', '+'):
                add(c + sep + o)
    return out


def candidates(typ, choices):
    out = []
    if choices:
        for c in choices:
            out.append((c, True))
        out.append(('bogus-choice', False))
        if choices[0].upper() not in choices:
            out.append((choices[0].upper(), False))
        out.extend((x, False) for x in near_choices(choices))
    else:
        for x in VALUES[typ]:
            out.append((x, True))
    for x in WRONG[typ]:
        out.append((x, False))
    if not choices:
        for x in EDGE[typ]:
            out.append((x, None))
    for x in subclass_candidates(typ, choices):
        out.append((x, 'subclass'))
    return out


# ------------------------------------------------------------ equality

def perturbations(spec_):
    """Every single-field perturbation of a tree spec (as mutator funcs on a
    built tree), with a label."""
    tree = build_tree(spec_)
    out = []
    for path, sec in sections_of(tree):
        kind = sec.section_name or 'diffx'
        for key in sorted(set(sec.options) | {'encoding', 'zz-custom'}):
            out.append(('opt:%s:%s' % (kind, key), path, 'opt', key))
        out.append(('optdel:%s' % kind, path, 'optdel', None))
        if hasattr(sec, '_content'):
            out.append(('content:%s' % kind, path, 'content', None))
            for name, val in content_variants(sec.data_type, sec._content):
                out.append(('content:%s:%s' % (kind, name), path,
                            'content-variant', name))
    for ci, c in enumerate(tree.changes):
        out.append(('add-file', 'change[%d]' % ci, 'addfile', None))
        if c.files:
            out.append(('del-file', 'change[%d]' % ci, 'delfile', None))
            if len(c.files) > 1:
                out.append(('swap-files', 'change[%d]' % ci, 'swapfiles',
                            None))
    for ci, c in enumerate(tree.changes):
        # same-length edits of the public lists (replacement, reversal)
        out.append(('replace-change', 'diffx', 'replacechange', ci))
        if c.files:
            out.append(('replace-file', 'change[%d]' % ci, 'replacefile',
                        None))
            if len(c.files) > 1:
                out.append(('reverse-files', 'change[%d]' % ci,
                            'reversefiles', None))
    out.append(('add-change', 'diffx', 'addchange', None))
    if tree.changes:
        out.append(('del-change', 'diffx', 'delchange', None))
    if len(tree.changes) > 1:
        out.append(('swap-changes', 'diffx', 'swapchanges', None))
    return out


def content_variants(t, cur):
    """Contents that differ from `cur` only slightly (what a tolerant
    comparison might ignore): all are != cur under Python equality."""
    import unicodedata
    out = []
    if t is str:
        cur = cur or ''
        cand = [('bom-prepended', '\ufeff' + cur),
                ('first-char-dropped', cur[1:]),
                ('final-newline-dropped', cur.rstrip('\n')),
                ('newline-appended', cur + '\n'),
                ('space-appended', cur + ' '),
                ('space-before-newline', cur[:-1] + ' \n' if
                 cur.endswith('\n') else cur + ' '),
                ('space-prepended', ' ' + cur),
                ('upper', cur.upper()), ('crlf', cur.replace('\n', '\r\n')),
                ('nfd', unicodedata.normalize('NFD', cur)),
                ('zwsp-appended', cur + '\u200b'),
                ('nul-appended', cur + '\x00'),
                ('tab-for-space', cur.replace(' ', '\t')),
                ('empty', '')]
    elif t is bytes:
        cur = cur or b''
        cand = [('bom-prepended', b'\xef\xbb\xbf' + cur),
                ('utf16-bom-prepended', b'\xff\xfe' + cur),
                ('first-byte-dropped', cur[1:]),
                ('final-newline-dropped', cur.rstrip(b'\n')),
                ('newline-appended', cur + b'\n'),
                ('crlf', cur.replace(b'\n', b'\r\n')),
                ('upper', cur.upper()), ('nul-appended', cur + b'\x00'),
                ('space-appended', cur + b' '), ('empty', b'')]
    else:
        cur = dict(cur or {})
        cand = [('key-added', dict(cur, zz=None)),
                ('key-case', {(k.upper() if isinstance(k, str) else k): v
                              for k, v in cur.items()}),
                ('empty', {})]
        for k in sorted(cur, key=repr)[:2]:
            v = cur[k]
            if isinstance(v, str):
                cand.append(('value-space', dict(cur, **{k: v + ' '})))
                cand.append(('value-bom', dict(cur, **{k: '\ufeff' + v})))
            elif isinstance(v, list):
                cand.append(('list-reversed', dict(cur, **{k: v[::-1]})))
                cand.append(('list-extended', dict(cur, **{k: v + [None]})))
            elif isinstance(v, dict):
                cand.append(('nested-key-added',
                             dict(cur, **{k: dict(v, zz=0)})))
            cand.append(('value-to-none', dict(cur, **{k: None})))
            cand.append(('value-to-str', dict(cur, **{k: repr(v)})))
    seen = []
    for name, val in cand:
        if val != cur and all(val != s_ for n_, s_ in seen):
            seen.append((name, val))
    return seen


def perturb(tree, path, how, key):
    sec = resolve(tree, path)
    if how == 'content-variant':
        for name, val in content_variants(sec.data_type, sec._content):
            if name == key:
                sec._content = val
                return True
        return False
    if how == 'opt':
        old = sec.options.get(key)
        sec.options[key] = 'changed' if old != 'changed' else 'changed2'
    elif how == 'optdel':
        if not sec.options:
            return False
        sec.options.pop(sorted(sec.options)[0])
    elif how == 'content':
        t = sec.data_type
        cur = sec._content
        if t is str:
            sec._content = (cur or '') + 'x'
        elif t is bytes:
            sec._content = (cur or b'') + b'x'
        else:
            sec._content = dict(cur or {}, zz='changed')
    elif how == 'addfile':
        sec.add_file()
    elif how == 'delfile':
        sec.files.pop()
    elif how == 'swapfiles':
        if fsnap_list(sec.files[0]) == fsnap_list(sec.files[1]):
            return False
        sec.files[0], sec.files[1] = sec.files[1], sec.files[0]
    elif how == 'replacechange':
        other = DiffX()
        nc = other.add_change(preamble='replacement\n',
                              meta={'id': 'replacement'})
        nc.add_file(meta={'path': 'replacement'})
        tree.changes[key] = nc
    elif how == 'replacefile':
        other = DiffX()
        nf = other.add_change().add_file(meta={'path': 'replacement'},
                                         diff=b'-r\n+s\n')
        sec.files[-1] = nf
    elif how == 'reversefiles':
        if fsnap_list(sec.files[0]) == fsnap_list(sec.files[-1]):
            return False
        sec.files.reverse()
    elif how == 'addchange':
        tree.add_change()
    elif how == 'delchange':
        tree.changes.pop()
    elif how == 'swapchanges':
        from mc.domsnap import snap_change
        if freeze(snap_change(tree.changes[0])) == \
                freeze(snap_change(tree.changes[1])):
            return False
        tree.changes[0], tree.changes[1] = tree.changes[1], tree.changes[0]
    return True


def fsnap_list(f):
    from mc.domsnap import snap_file
    return freeze(snap_file(f))


def use_tree(t):
    """Everything a program does with a tree before editing it again:
    compare, iterate, print, serialise, analyse nothing (stats would change
    it)."""
    try:
        t == t
        list(t)
        for c in t.changes:
            list(c)
        repr(t)
        t.to_bytes()
    except Exception:
        pass


def eq_checks(a, b, label):
    """a == b <=> snapshots equal <=> not a != b; symmetric; equal =>
    to_bytes equal when serialisable."""
    v = []
    same = fsnap(a) == fsnap(b)
    # trees that differ only in numbers Python's == identifies (1 / True /
    # 1.0): "equal content" can be read either way, so either answer of ==
    # is accepted -- but see the serialisation clause below
    twins = not same and snap(a) == snap(b)
    try:
        e1, e2, n1 = (a == b), (b == a), (a != b)
    except Exception as e:
        return [('eq-raised:%s' % type(e).__name__, '%s: %r' % (label, e))]
    if e1 != same and not twins:
        v.append(('eq-not-structural:%s' % ('equal-but-different'
                                            if e1 else
                                            'unequal-but-same'),
                  '%s: == gives %r, snapshots equal %r' % (label, e1, same)))
    if e1 != e2:
        v.append(('eq-not-symmetric', label))
    if n1 == e1:
        v.append(('ne-inconsistent', label))
    if e1:
        try:
            ba, bb = a.to_bytes(), b.to_bytes()
        except Exception:
            ba = bb = None
        if ba != bb:
            v.append(('equal-trees-serialise-differently' +
                      (':python-equal-numbers' if twins else ''), label))
    return v


def plan(tier):
    specs = base_specs(tier)
    units = [('assign', i) for i in range(len(specs))]
    units += [('unknown', i) for i in range(0, len(specs), 8)]
    units += [('eq-pairs', i) for i in range(len(specs))]
    units += [('eq-perturb', i) for i in range(len(specs))]
    units.append(('eq-shared', 0))
    return {
        'units': units,
        'rule': '%d base trees (states reachable in <= %d construct/add '
                'operations with several attribute sets). Assignment: every '
                'section of every tree x every own and forwarded attribute x '
                'every candidate (valid values, both choices, bad choice, '
                'wrong-case choice, 5-6 wrong types, right-typed values of '
                'undocumented validity, values of SUBCLASS types: str '
                'subclasses incl. one with a different __str__ and str-Enum '
                'members, int subclasses / IntEnum / bool, OrderedDict / '
                'defaultdict, bytes subclass); constructor/add_* with '
                'unknown attribute names. Equality: all ordered pairs of '
                'base trees; every single-field perturbation (each option '
                'changed/removed, custom option added, each content changed, '
                'change/file added, removed, swapped) at every depth; trees '
                'whose metadata holds the same list / dict object in several '
                'places, one occurrence changed at a time, both orders. '
                'Non-trivial: rejected assignment on a tree with >= 1 file, '
                'or perturbation at depth >= 2.'
                % (len(specs), 3 if tier == 'quick' else 4),
        'bound': '%d base trees' % len(specs),
        'exhaustive': True,
        'assumptions': ['declared types/choices transcribed from the class '
                        'docstrings of pydiffx.dom.objects',
                        'bool is not offered where int is declared '
                        '(isinstance(True, int) holds in Python)'],
    }



def OPT_UNITS(tier):
    """Units repeated in an interpreter started with -O (validation must
    not live in assert statements or __debug__ blocks)."""
    us = plan(tier)['units']
    keep = []
    for kind, n in [('assign', 8), ('unknown', 5), ('eq-perturb', 2)]:
        keep += [u for u in us if str(u[0]) == kind][:n]
    return keep


def run_unit(unit, tier):
    acc = Acc()
    specs = base_specs(tier)
    kindu, i = unit
    if kindu == 'eq-shared':
        n = len(shared_positions())
        for sl in (True, False):
            for sr in (True, False):
                for pi in [None] + list(range(n)):
                    viols = check_shared(pi, sl, sr)
                    acc.evals += 1
                    acc.states += 1
                    acc.transitions += 3
                    acc.validated += 1
                    acc.nontrivial += 1
                    for key, msg in viols:
                        acc.violation(key + ':shared-substructure', msg,
                                      {'kind': 'eq-shared', 'pi': pi,
                                       'sl': sl, 'sr': sr})
                    acc.outcome('ok' if not viols else 'violation')
        acc.sample({'shared_substructure_positions': n}, 1)
        return acc

    def rec(viols, payload, nt):
        acc.evals += 1
        acc.transitions += 1
        acc.validated += 1
        if nt:
            acc.nontrivial += 1
        for key, msg in viols:
            acc.violation(key, msg, payload)
        acc.outcome('ok' if not viols else 'violation')

    if kindu == 'assign' and specs[i].get('_big'):
        # the large tree takes part in the equality passes only (every
        # assignment x candidate on 300 sections would rebuild it 10^5 times)
        return acc
    if kindu == 'assign':
        sp = specs[i]
        tree = build_tree(sp)
        nfiles = sum(len(c.files) for c in tree.changes)
        for path, kind, sec in targets(tree):
            for name, (typ, choices, where) in sorted(ATTRS[kind].items()):
                for value, valid in candidates(typ, choices):
                    viols = check_assign(sp, path, kind, name, value, valid)
                    if valid == 'subclass':
                        payload = {'kind': 'assign-subclass',
                                   'spec': to_jsonable(sp), 'path': path,
                                   'skind': kind, 'name': name,
                                   'index': [repr(c) for c, _v in candidates(
                                       typ, choices)].index(repr(value))}
                    else:
                        payload = {'kind': 'assign', 'spec': to_jsonable(sp),
                                   'path': path, 'skind': kind, 'name': name,
                                   'value': to_jsonable(value),
                                   'valid': valid}
                    rec(viols, payload, (not valid) and nfiles >= 1)
        acc.states = 1
        acc.sample({'tree': repr(sp)[:200]}, 1)
    elif kindu == 'unknown':
        for sp in specs[i:i + 8]:
            for ctor in ('diffx', 'change', 'file'):
                for name in UNKNOWN[ctor]:
                    viols = check_unknown(sp, ctor, name)
                    rec(viols, {'kind': 'unknown', 'spec': to_jsonable(sp),
                                'ctor': ctor, 'name': name}, True)
    elif kindu == 'eq-pairs':
        a_spec = specs[i]
        for j, b_spec in enumerate(specs):
            if (a_spec.get('_big') or b_spec.get('_big')) and \
                    not (i == j or j < 3 or i < 3):
                continue
            a, b = build_tree(a_spec), build_tree(b_spec)
            viols = eq_checks(a, b, 'trees %d,%d' % (i, j))
            rec(viols, {'kind': 'eq-pair', 'a': to_jsonable(a_spec),
                        'b': to_jsonable(b_spec)}, i != j)
        acc.states = 1
    else:
        sp = specs[i]
        for label, path, how, key in perturbations(sp):
            for used in ((False,) if sp.get('_big') else (False, True)):
                a, b = build_tree(sp), build_tree(sp)
                if used:
                    use_tree(a)
                    use_tree(b)
                if not perturb(b, path, how, key):
                    continue
                viols = eq_checks(a, b, 'perturbation %s at %s%s'
                                  % (label, path,
                                     ' (trees used before)' if used else ''))
                if not viols and a == b:
                    viols = [('perturbation-not-detected:%s' % label,
                              '%s at %s' % (label, path))]
                if used:
                    viols = [(k_ + ':after-use', m_) for k_, m_ in viols]
                rec(viols, {'kind': 'eq-perturb', 'spec': to_jsonable(sp),
                            'path': path, 'how': how, 'key': key,
                            'label': label, 'used': used},
                    path.count('.') + path.count('[') >= 2)
        acc.states = 1
        acc.sample({'perturbations_of': repr(sp)[:160]}, 1)
    return acc


def shared_tree(share):
    """A tree whose metadata holds the SAME list / dict object in several
    places (share=True) or equal but distinct objects (share=False)."""
    import copy

    def mk():
        X = ['x', {'k': 1}]
        Y = {'n': [1, 2]}
        c_ = (lambda o: o) if share else copy.deepcopy
        return X, Y, c_
    X, Y, c_ = mk()
    d = DiffX(meta={'a': c_(X), 'b': c_(X), 'c': [c_(Y), c_(Y)],
                    'd': {'p': c_(Y), 'q': c_(X)}}, preamble='p\n')
    ch = d.add_change(meta={'l': c_(X), 'm': c_(X)})
    ch.add_file(meta={'path': 'f', 'u': c_(Y), 'v': c_(Y), 'w': [c_(X)]})
    return d


def shared_positions():
    """(section path, key path) of every container occurrence."""
    out = []
    t = shared_tree(False)
    for path, sec in sections_of(t):
        if getattr(sec, 'data_type', None) is dict and sec._content:
            def walk(o, kp):
                if isinstance(o, dict):
                    for k in sorted(o):
                        if isinstance(o[k], (dict, list)):
                            out.append((path, kp + (k,)))
                            walk(o[k], kp + (k,))
                elif isinstance(o, list):
                    for i, x in enumerate(o):
                        if isinstance(x, (dict, list)):
                            out.append((path, kp + (i,)))
                            walk(x, kp + (i,))
            walk(sec._content, ())
    return out


def check_shared(pos_index, share_left, share_right):
    """Left and right trees are equal except at ONE container occurrence of
    the right tree, which is replaced by a modified copy."""
    import copy
    a = shared_tree(share_left)
    b = shared_tree(share_right)
    v = eq_checks(a, b, 'equal trees, sharing %r / %r'
                  % (share_left, share_right))
    if pos_index is None:
        return v
    path, kp = shared_positions()[pos_index]
    sec = resolve(b, path)
    o = sec._content
    for k in kp[:-1]:
        # un-share the ancestors on the way down so that only this one
        # occurrence changes
        o[k] = copy.copy(o[k])
        o = o[k]
    new = copy.deepcopy(o[kp[-1]])
    if isinstance(new, list):
        new.append('changed')
    else:
        new['changed'] = True
    o[kp[-1]] = new
    label = 'one occurrence changed at %s %r (sharing %r / %r)' % (
        path, kp, share_left, share_right)
    v += eq_checks(a, b, label)
    v += eq_checks(b, a, label + ' reversed')
    return v


UNKNOWN_VALUES = ['x', None, '', 0, False, b'', [], {}, 1.5]


def check_unknown(sp, ctor, name):
    """An attribute name the section does not have is rejected whatever
    value comes with it (a word, None, empty / falsy values of every
    type)."""
    v = []
    for val in UNKNOWN_VALUES:
        tree = build_tree(sp)
        before = snap(tree)
        vn = type(val).__name__ if val != 'x' else 'str'
        try:
            if ctor == 'diffx':
                DiffX(**{name: copy.deepcopy(val)})
            elif ctor == 'change':
                tree.add_change(**{name: copy.deepcopy(val)})
            else:
                if not tree.changes:
                    return []
                tree.changes[-1].add_file(**{name: copy.deepcopy(val)})
            v.append(('unknown-attribute-accepted:%s:%s%s'
                      % (ctor, name, '' if val == 'x' and val is not False
                         else ':value-' + vn),
                      '%s(%s=%r) accepted' % (ctor, name, val)))
        except Exception:
            pass            # rejected (the statement does not fix the type)
        if freeze(snap(tree)) != freeze(before):
            v.append(('rejected-constructor-changed-tree:%s' % ctor,
                      '%s(%s=%r) changed the tree (a change/file was '
                      'appended?)' % (ctor, name, val)))
    return v


def replay(payload):
    k = payload.get('kind')
    if k == 'eq-shared':
        return [{'key': k_ + ':shared-substructure', 'msg': m}
                for k_, m in check_shared(payload['pi'], payload['sl'],
                                          payload['sr'])]
    if k == 'assign-subclass':
        typ, choices, where = ATTRS[payload['skind']][payload['name']]
        value, valid = candidates(typ, choices)[payload['index']]
        viols = check_assign(from_jsonable(payload['spec']), payload['path'],
                             payload['skind'], payload['name'], value, valid)
    elif k == 'assign':
        viols = check_assign(from_jsonable(payload['spec']), payload['path'],
                             payload['skind'], payload['name'],
                             from_jsonable(payload['value']),
                             payload['valid'])
    elif k == 'unknown':
        viols = check_unknown(from_jsonable(payload['spec']),
                              payload['ctor'], payload['name'])
    elif k == 'eq-pair':
        viols = eq_checks(build_tree(from_jsonable(payload['a'])),
                          build_tree(from_jsonable(payload['b'])), 'pair')
    elif k == 'eq-perturb':
        sp = from_jsonable(payload['spec'])
        a, b = build_tree(sp), build_tree(sp)
        if payload.get('used'):
            use_tree(a)
            use_tree(b)
        perturb(b, payload['path'], payload['how'], payload['key'])
        viols = eq_checks(a, b, 'perturbation')
        if not viols and a == b:
            viols = [('perturbation-not-detected:%s' % payload['label'], '')]
        if payload.get('used'):
            viols = [(k_ + ':after-use', m_) for k_, m_ in viols]
    else:
        viols = []
    return [{'key': k_, 'msg': m} for k_, m in viols]
