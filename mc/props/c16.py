"""C16 -- split_lines laws, exhaustive small scope (DESIGN 2.3)."""
import itertools

from pydiffx.utils.text import split_lines

from mc.explore import Acc
from mc.spec import to_jsonable, from_jsonable

ID = 'C16'
LEVEL = 'model_checking'

NEWLINES = []
for _codec in ('ascii', 'utf-16-le', 'utf-16-be', 'utf-32-le', 'utf-32-be'):
    for _s, _name in (('\n', 'LF'), ('\r\n', 'CRLF')):
        NEWLINES.append(('%s/%s' % (_name, _codec), _s.encode(_codec)))

# ... plus every other newline byte sequence a codec of the platform gives
# (EBCDIC code pages encode LF as 0x25 "%"; UTF-16/32 with BOM reduce to the
# LE/BE forms above)
def _other_newlines():
    import codecs
    import encodings.aliases
    seen = set(b for n, b in NEWLINES)
    out = []
    names = set(encodings.aliases.aliases.values()) | {'utf-8', 'cp037'}
    for n in sorted(names):
        try:
            sig = ''.encode(n)
            for s_, tag in (('\n', 'LF'), ('\r\n', 'CRLF')):
                b = s_.encode(n)[len(sig):]
                if b and b not in seen and len(b) <= 8 and \
                        'a'.encode(n)[len(sig):] != b and \
                        ('x' + s_ + 'y').encode(n).decode(n) == 'x' + s_ + 'y':
                    # keep border-free sequences only
                    if all(b[:k] != b[-k:] for k in range(1, len(b))):
                        seen.add(b)
                        out.append(('%s/%s' % (tag, n), b))
        except Exception:
            continue
    return out


NEWLINES += _other_newlines()

for _name, _nl in NEWLINES:       # border-free => occurrence count well defined
    for _k in range(1, len(_nl)):
        assert _nl[:_k] != _nl[-_k:], _name

ALPHA5 = [b'\r', b'\n', b'\x00', b' ', b'a']
ALPHA4 = [b'\r', b'\n', b'\x00', b'a']


def ref_split(data, newline):
    """Naive left-to-right non-overlapping scanner (no bytes.split)."""
    out = []
    start = 0
    i = 0
    n = len(newline)
    while i + n <= len(data):
        if data[i:i + n] == newline:
            out.append(data[start:i + n])
            i += n
            start = i
        else:
            i += 1
    tail = data[start:]
    return out, tail


def ref_split_fast(data, newline):
    """Same scanner with bytes.find for the search step (equal to ref_split
    because the next non-overlapping occurrence at or after the cursor is
    the leftmost one; asserted on every small-scope case)."""
    out = []
    start = 0
    n = len(newline)
    while True:
        i = data.find(newline, start)
        if i < 0:
            break
        out.append(data[start:i + n])
        start = i + n
    return out, data[start:]


def check_one(data, newline):
    """Returns (violations, nontrivial)."""
    v = []
    try:
        # call history: the lists handed out belong to the caller, who may
        # edit them; later calls must not see the edits
        first = split_lines(data, newline, keep_ends=False)
        first_copy = list(first) if isinstance(first, list) else first
        if isinstance(first, list):
            first.append(b'caller-added')
            first[0:1] = [b'caller-edited']
        keep_ = split_lines(data, newline, keep_ends=True)
        keep = list(keep_) if isinstance(keep_, list) else keep_
        if isinstance(keep_, list):
            keep_.reverse()
            keep_.append(b'caller-added')
        bare = split_lines(data, newline, keep_ends=False)
        again = split_lines(data, newline, keep_ends=True)
    except Exception as e:
        return [('exception:%s' % type(e).__name__, repr(e))], False
    if first_copy != bare or again != keep:
        v.append(('law5-result-depends-on-call-history',
                  'after the caller edited the returned lists: first call '
                  '%d lines, later calls %d / %d lines'
                  % (len(first_copy), len(bare), len(again))))
    if len(data) > 200000:
        terminated, tail = ref_split_fast(data, newline)
    else:
        terminated, tail = ref_split(data, newline)
        if len(data) < 32:
            assert ref_split_fast(data, newline) == (terminated, tail)
    occ = len(terminated)
    n = len(newline)
    if not isinstance(keep, list) or not isinstance(bare, list) or \
            not all(isinstance(x, bytes) for x in keep + bare):
        return [('type', 'result is not a list of bytes')], occ > 0
    if b''.join(keep) != data:
        v.append(('law1-lossless', 'join(keep_ends) != data: %r' % (keep,)))
    for idx, ln in enumerate(keep):
        last = idx == len(keep) - 1
        if ln.endswith(newline):
            if ln.find(newline) != len(ln) - n:
                v.append(('law2-inner-newline', 'line %d %r contains the '
                          'newline before its end' % (idx, ln)))
        else:
            if not last:
                v.append(('law2-unterminated-middle',
                          'line %d %r lacks the newline' % (idx, ln)))
            elif newline in ln:
                v.append(('law2-inner-newline', 'last line %r contains the '
                          'newline' % (ln,)))
            if last and ln == b'':
                v.append(('law2-empty-last', 'empty artificial last line'))
    expect_n = occ + (0 if data.endswith(newline) else 1)
    if len(keep) != expect_n:
        v.append(('law3-count-keep', 'len=%d expected %d' % (len(keep),
                                                             expect_n)))
    if len(bare) != expect_n:
        v.append(('law3-count-bare', 'len=%d expected %d' % (len(bare),
                                                             expect_n)))
    derived = [ln[:-n] if ln.endswith(newline) else ln for ln in keep]
    if derived != bare:
        v.append(('law4-modes-disagree', 'bare=%r derived=%r'
                  % (bare, derived)))
    # independent oracle: equals the reference scanner outright
    ref = terminated + ([tail] if tail else [])
    if keep != ref:
        if len(data) > 5000:
            bad = next((i for i, (a, b) in enumerate(zip(keep, ref))
                        if a != b), min(len(keep), len(ref)))
            v.append(('ref-scanner', 'first differing line %d of %d/%d at '
                      'offset %d' % (bad, len(keep), len(ref),
                                     sum(len(x) for x in ref[:bad]))))
        else:
            v.append(('ref-scanner', 'keep=%r ref=%r' % (keep, ref)))
    return v, occ > 0


def plan(tier):
    units = []
    if tier == 'quick':
        scopes = [(ALPHA5, 8)]
    else:
        scopes = [(ALPHA5, 9), (ALPHA4, 11)]
    for si, (alpha, maxlen) in enumerate(scopes):
        for ni in range(len(NEWLINES)):
            units.append((si, ni, None))         # short strings (len < 2)
            for a in range(len(alpha)):
                for b in range(len(alpha)):
                    units.append((si, ni, (a, b)))
    for ni in range(len(NEWLINES)):
        units.append(('repeat', ni, None))
        units.append(('bytevalues', ni, None))
        units.append(('scale', ni, None))
        for period in PERIODS:
            units.append(('periodic', ni, period, tier != 'quick'))
    return {
        'units': units,
        'scopes': scopes,
        'rule': 'every non-empty byte string over %s, x 10 newline sequences '
                '(LF, CRLF in ASCII, UTF-16-LE/BE, UTF-32-LE/BE) x '
                'keep_ends in {False, True}; a case (string, newline) is '
                'non-trivial when the string contains >= 1 occurrence of the '
                'newline; each case distinct by construction; every case is '
                'four calls, the caller editing the returned lists in '
                'between. Plus inputs of '
                '1023..65537 bytes at buffer boundaries and inputs of 2 MiB '
                '(thorough 9 MiB) in which the newline straddles every '
                'multiple of 4096 / 1000 / 4099 at every offset k'
                % ', '.join('{%s} up to length %d'
                            % (' '.join(repr(x)[2:-1] for x in a), m)
                            for a, m in scopes),
        'bound': 'length <= %s' % '/'.join(str(m) for a, m in scopes),
        'exhaustive': True,
        'assumptions': [
            'in strings longer than 3 tokens, bytes outside the alphabet '
            'behave like the ordinary byte "a" (every byte value and code '
            'point 0..255 is tried in 11 positions of short strings)',
            'newline sequences limited to the ten the library can produce '
            'for LF/CRLF in ASCII-compatible, UTF-16 and UTF-32 codecs',
        ],
    }


def _scopes(tier):
    return plan(tier)['scopes']


def run_unit(unit, tier):
    if unit[0] == 'scale':
        return run_scale_unit(unit[1])
    if unit[0] == 'periodic':
        return run_periodic_unit(*unit[1:])
    if unit[0] == 'bytevalues':
        return run_bytevalue_unit(unit[1])
    if unit[0] == 'repeat':
        return run_repeat_unit(unit[1])
    si, ni, prefix = unit
    alpha, maxlen = _scopes(tier)[si]
    name, newline = NEWLINES[ni]
    acc = Acc()

    extra = [bytes([c]) for c in sorted(set(newline))
             if bytes([c]) not in alpha]
    if extra:
        alpha = list(alpha) + extra

    def one(data):
        viols, nt = check_one(data, newline)
        acc.evals += 1
        acc.states += 1
        acc.transitions += 2
        acc.validated += 1
        if nt:
            acc.nontrivial += 1
        for key, msg in viols:
            acc.violation('%s:%s' % (key, name.split('/')[0]), msg,
                          {'kind': 'input', 'data': to_jsonable(data),
                           'newline': to_jsonable(newline)})
        if not viols:
            acc.outcome('ok-nl' if nt else 'ok-no-nl')
        else:
            acc.outcome('violation')

    if prefix is None:
        # thorough's second scope repeats short strings of the first; only
        # count those not already covered
        for a in alpha:
            if si == 0 or a not in _scopes(tier)[0][0]:
                one(a)
        return acc
    p = alpha[prefix[0]] + alpha[prefix[1]]
    if extra:
        maxlen = max(4, maxlen - 2)      # larger alphabet, shorter strings
    first = None
    if si > 0:
        first = (_scopes(tier)[0][0], _scopes(tier)[0][1])
    for n in range(0, maxlen - 1):
        for t in itertools.product(alpha, repeat=n):
            data = p + b''.join(t)
            if first is not None and len(data) <= first[1] and \
                    all(bytes([c]) in first[0] for c in data):
                continue        # already enumerated in scope 0
            one(data)
    acc.sample({'data': repr(p + alpha[1] * 2), 'newline': name})
    return acc


def scale_data():
    """Long inputs at buffer-size boundaries, for every newline sequence:
    many short lines, one long line, data made only of newlines, a newline
    straddling each boundary, data starting / ending with (part of) it."""
    from mc.alphabets import BOUNDARY_SIZES_Q
    out = []
    for name, nlb in NEWLINES:
        n = len(nlb)
        for size in BOUNDARY_SIZES_Q:
            out.append((name, b'a' * size))
            out.append((name, b'a' * size + nlb))
            out.append((name, nlb + b'a' * size))
            out.append((name, nlb * (size // n)))
            out.append((name, (b'ab' + nlb) * (size // (n + 2)) + b'tail'))
            for k in range(1, n + 1):
                # the newline begins k bytes before the boundary
                pre = b'x' * (size - k)
                out.append((name, pre + nlb + b'y' * 10))
                out.append((name, pre + nlb[:k]))      # ends in part of it
            out.append((name, b'\r' * size))
            out.append((name, b'\x00' * size + nlb))
    return out


# A multi-megabyte input with the newline straddling EVERY multiple of a
# period (k bytes before it): whatever window / chunk size an implementation
# works in, if it is a multiple of 4096 or of 1000 (or 4099: a prime, for
# windows that are not), some newline straddles its edge.
PERIODS = [4096, 1000, 4099]


def periodic_data(nlb, period, k, total):
    n = len(nlb)
    gap = period - n
    unit = nlb + b'p' * gap            # newline at offsets j*period - k
    lead = b'q' * (period - k)
    reps = (total - len(lead)) // period
    return lead + unit * reps + b'end'


def run_periodic_unit(ni, period, thorough):
    acc = Acc()
    name, nlb = NEWLINES[ni]
    total = (9 << 20) if thorough else (2 << 20) + 5000
    for k in range(0, len(nlb) + 1):
        data = periodic_data(nlb, period, k, total)
        viols, nt = check_one(data, nlb)
        acc.evals += 1
        acc.states += 1
        acc.transitions += 2
        acc.validated += 1
        acc.nontrivial += 1
        for key, msg in viols:
            acc.violation('%s:%s:periodic' % (key, name.split('/')[0]),
                          msg[:300], {'kind': 'periodic', 'ni': ni,
                                      'period': period, 'k': k,
                                      'total': total})
        acc.outcome('ok-periodic' if not viols else 'violation')
    acc.sample({'periodic': '%d bytes, %s every %d bytes' % (total, name,
                                                            period)}, 1)
    return acc


REPEAT_CALLS = 150


def _crc_tables():
    T = []
    for i in range(256):
        c = i
        for _ in range(8):
            c = (c >> 1) ^ 0xEDB88320 if c & 1 else c >> 1
        T.append(c)
    R = {}
    for i, t in enumerate(T):
        R[t >> 24] = ((t << 8) & 0xFFFFFFFF) ^ i
    return T, R


def forge_crc32(prefix, target):
    """Four bytes X with zlib.crc32(prefix + X) == target."""
    import zlib
    T, R = _crc_tables()
    reg = zlib.crc32(prefix) ^ 0xFFFFFFFF
    v = target ^ 0xFFFFFFFF
    for _ in range(4):
        v = ((v << 8) & 0xFFFFFFFF) ^ R[v >> 24]
    x = (v ^ reg).to_bytes(4, 'little')
    assert zlib.crc32(prefix + x) == target
    return x


def adler_collision():
    """Two different 4-byte strings with the same Adler-32."""
    import itertools
    import zlib
    seen = {}
    for t in itertools.product(b'ab\n\rcd', repeat=4):
        d = bytes(t)
        k = zlib.adler32(d)
        if k in seen and seen[k] != d:
            return seen[k], d
        seen[k] = d
    return None


def collision_pairs(nlb):
    """Different inputs of equal length that agree on a cheap checksum
    (CRC-32, Adler-32, length + first / last bytes): a memo keyed by a
    digest instead of the data would confuse them."""
    import zlib
    out = []
    a = b'--- a' + nlb + b'+++ b' + nlb + b'-old line' + nlb + b'+new'
    b_pre = b'--- X' + nlb + b'+YY b' + nlb * 2 + b'-old' + nlb + b'Z'
    b_pre = (b_pre + b'q' * len(a))[:len(a) - 4]
    out.append((a, b_pre + forge_crc32(b_pre, zlib.crc32(a))))
    a2 = a + nlb
    b2_pre = (b'q' + nlb) * len(a2)
    b2_pre = b2_pre[:len(a2) - 4]
    out.append((a2, b2_pre + forge_crc32(b2_pre, zlib.crc32(a2))))
    ad = adler_collision()
    if ad:
        out.append(ad)
    # same length, same first and last bytes
    out.append((b'head' + b'x' * 200 + nlb + b'tail',
                b'head' + b'x' * 100 + nlb + b'x' * (100 - len(nlb)) + nlb +
                b'tail'))
    return [(x, y) for x, y in out if len(x) == len(y) and x != y]


def check_collision(x, y, nlb):
    v = []
    for rnd in range(3):
        for d in (x, y):
            viols, nt = check_one(d, nlb)
            if viols:
                return [('%s:after-checksum-twin' % viols[0][0],
                         'input %r split after its twin %r (same length, '
                         'same checksum): %s'
                         % (d[:30], (y if d is x else x)[:30],
                            viols[0][1][:200]))]
    return v



def repeat_cases(nlb):
    a = b'a' * len(nlb)
    return [a + nlb + a, a + nlb + a + nlb, a, nlb, a + a + nlb + nlb + a,
            nlb + a, a * 40 + nlb + a * 3, (a + nlb) * 30 + a,
            b'+new' if len(nlb) == 1 else a * 4 + nlb + a * 2]


def check_repeat(data, nlb):
    """The same input split again and again (both modes, equal but not
    identical objects): the 150th answer is the first."""
    first = None
    for i in range(REPEAT_CALLS):
        d = bytes(bytearray(data)) if i % 3 == 0 else data
        k = split_lines(d, nlb, keep_ends=True)
        b = split_lines(d, nlb, keep_ends=False)
        if first is None:
            first = (list(k), list(b))
            v, nt = check_one(data, nlb)
            if v:
                return v
        elif (k, b) != first:
            return [('law5-result-depends-on-call-history',
                     'call pair %d on %r gave %r / %r, the first gave %r'
                     % (i + 1, data[:40], k[-2:], b[-2:],
                        (first[0][-2:], first[1][-2:])))]
    return []


class _Truthy(object):
    def __bool__(self):
        return True


class _Falsy(object):
    def __bool__(self):
        return False


def check_flag_types(data, nlb):
    """keep_ends is a flag: every truthy value selects the kept-ends
    result, every falsy one the other."""
    keep = split_lines(data, nlb, keep_ends=True)
    bare = split_lines(data, nlb, keep_ends=False)
    v = []
    for flag in (1, 2, -1, 'yes', 'False', [0], 1.0, _Truthy()):
        if split_lines(data, nlb, keep_ends=flag) != keep:
            v.append(('law4-flag-truthiness:truthy-%s'
                      % type(flag).__name__,
                      'keep_ends=%r does not give the kept-ends result'
                      % (flag,)))
    for flag in (0, None, '', [], 0.0, _Falsy()):
        if split_lines(data, nlb, keep_ends=flag) != bare:
            v.append(('law4-flag-truthiness:falsy-%s' % type(flag).__name__,
                      'keep_ends=%r does not give the bare result'
                      % (flag,)))
    return v


def run_repeat_unit(ni):
    acc = Acc()
    name, nlb = NEWLINES[ni]
    for j, (x, y) in enumerate(collision_pairs(nlb)):
        viols = check_collision(x, y, nlb)
        acc.evals += 6
        acc.transitions += 24
        for key, msg in viols:
            acc.violation('%s:%s' % (key, name.split('/')[0]), msg,
                          {'kind': 'collision', 'ni': ni, 'j': j})
    for i, data in enumerate(repeat_cases(nlb)):
        viols = check_flag_types(data, nlb)
        acc.evals += 14
        acc.transitions += 14
        for key, msg in viols:
            acc.violation('%s:%s' % (key, name.split('/')[0]), msg,
                          {'kind': 'flags', 'ni': ni, 'i': i})
    for i, data in enumerate(repeat_cases(nlb)):
        viols = check_repeat(data, nlb)
        acc.evals += REPEAT_CALLS
        acc.states += 1
        acc.transitions += 2 * REPEAT_CALLS
        acc.validated += 1
        acc.nontrivial += 1
        for key, msg in viols:
            acc.violation('%s:%s:repeat' % (key, name.split('/')[0]),
                          msg[:300], {'kind': 'repeat', 'ni': ni, 'i': i})
        acc.outcome('ok-repeat' if not viols else 'violation')
    acc.sample({'repeated_calls': REPEAT_CALLS, 'newline': name}, 1)
    return acc


def bytevalue_cases(ni):
    """Every byte value (and, for multi-byte newlines, every code point
    0..255 encoded like the newline's own characters) in every position
    relative to newlines: alone, first, last unterminated line, between
    newlines, doubled, after / before ordinary bytes."""
    name, nlb = NEWLINES[ni]
    codec = name.split('/', 1)[1]
    out = []
    seen = set()
    for c in range(256):
        toks = [bytes([c])]
        try:
            from mc.spec import enc_nobom
            toks.append(enc_nobom(chr(c), codec))
        except Exception:
            pass
        for t in toks:
            if t in seen:
                continue
            seen.add(t)
            a = b'a' * len(t)
            for data in (t, t + nlb, nlb + t, a + nlb + t, t + nlb + a,
                         nlb + t + nlb, t + t, a + nlb + t + t,
                         a + nlb + a + nlb + t, nlb + nlb + t,
                         a + t + nlb + t + a,
                         # runs of one value (sentinel / marker candidates)
                         t * 3, t * 4, t * 5, t * 8, t * 16,
                         a + t * 4 + a + nlb, nlb + t * 4 + nlb + t * 8,
                         a + nlb + t * 4):
                out.append(data)
    # other byte patterns an implementation might use as a private marker
    for m in (b'\x00\x01', b'\xff\xfe\xfd\xfc', b'\xde\xad\xbe\xef',
              b'\x01\x02\x03\x04', b'\x1e\x1f', b'\xc0\x80', b'\xf5\xff',
              b'\xef\xbf\xbf', b'\xed\xa0\x80', b'\x00' * 7, b'\xff' * 7,
              b'\r' * 4, b'<<<>>>', b'\x7f\x7f'):
        for data in (m, b'a' + m + b'b' + nlb, nlb + m, m + nlb + m,
                     b'a' + nlb + m + m + nlb):
            out.append(data)
    return out


def run_bytevalue_unit(ni):
    acc = Acc()
    name, nlb = NEWLINES[ni]
    for i, data in enumerate(bytevalue_cases(ni)):
        viols, nt = check_one(data, nlb)
        acc.evals += 1
        acc.states += 1
        acc.transitions += 4
        acc.validated += 1
        if nt:
            acc.nontrivial += 1
        for key, msg in viols:
            acc.violation('%s:%s:bytevalue' % (key, name.split('/')[0]),
                          msg[:300], {'kind': 'input',
                                      'data': to_jsonable(data),
                                      'newline': to_jsonable(nlb),
                                      'suffix': ':bytevalue'})
        acc.outcome('ok-nl' if nt else 'ok-no-nl')
    acc.sample({'byte_values': 'every byte / code point 0..255 in 11 '
                               'positions', 'newline': name}, 1)
    return acc


def run_scale_unit(ni):
    acc = Acc()
    for i, (name, data) in enumerate(scale_data()):
        if name != NEWLINES[ni][0]:
            continue
        newline = dict(NEWLINES)[name]
        viols, nt = check_one(data, newline)
        acc.evals += 1
        acc.states += 1
        acc.transitions += 2
        acc.validated += 1
        acc.nontrivial += 1
        for key, msg in viols:
            acc.violation('%s:%s:scale' % (key, name.split('/')[0]),
                          msg[:300], {'kind': 'scale', 'index': i})
        acc.outcome('ok-scale' if not viols else 'violation')
    acc.sample({'scale': 'inputs of 1023..65537 bytes x 10 newlines'}, 1)
    return acc


def replay(payload):
    if payload.get('kind') == 'collision':
        name, nlb = NEWLINES[payload['ni']]
        x, y = collision_pairs(nlb)[payload['j']]
        return [{'key': '%s:%s' % (k, name.split('/')[0]), 'msg': m}
                for k, m in check_collision(x, y, nlb)]
    if payload.get('kind') == 'flags':
        name, nlb = NEWLINES[payload['ni']]
        viols = check_flag_types(repeat_cases(nlb)[payload['i']], nlb)
        return [{'key': '%s:%s' % (k, name.split('/')[0]), 'msg': m}
                for k, m in viols]
    if payload.get('kind') == 'repeat':
        name, nlb = NEWLINES[payload['ni']]
        viols = check_repeat(repeat_cases(nlb)[payload['i']], nlb)
        return [{'key': '%s:%s:repeat' % (k, name.split('/')[0]),
                 'msg': m[:300]} for k, m in viols]
    if payload.get('kind') == 'periodic':
        name, nlb = NEWLINES[payload['ni']]
        data = periodic_data(nlb, payload['period'], payload['k'],
                             payload['total'])
        viols, nt = check_one(data, nlb)
        return [{'key': '%s:%s:periodic' % (k, name.split('/')[0]),
                 'msg': m[:300]} for k, m in viols]
    if payload.get('kind') == 'scale':
        name, data = scale_data()[payload['index']]
        viols, nt = check_one(data, dict(NEWLINES)[name])
        return [{'key': '%s:%s:scale' % (k, name.split('/')[0]),
                 'msg': m[:300]} for k, m in viols]
    data = from_jsonable(payload['data'])
    newline = from_jsonable(payload['newline'])
    name = [n for n, b in NEWLINES if b == newline]
    name = name[0] if name else 'custom'
    viols, nt = check_one(data, newline)
    return [{'key': ('%s:%s%s' % (k, name.split('/')[0],
                                  payload.get('suffix', ''))).replace(' ', '_'),
             'msg': m[:300] if payload.get('suffix') else m}
            for k, m in viols]
