"""C20 -- syntax highlighter is lossless and tags every section header."""
import itertools
import re
import signal

from pygments.token import Error, Name

from pydiffx.integrations.pygments_lexer import DiffXLexer

from mc import spec
from mc.explore import Acc, deviations
from mc.spec import to_jsonable, from_jsonable

ID = 'C20'
LEVEL = 'model_checking'

FINE = ['#', '.', '..', '...', 'diffx', 'meta', 'preamble', 'diff',
        'change', 'file', ':', ' ', '\n', '\r\n', 'x', '{"a": 1}',
        'delta 1', '@@ -1 +1 @@',
        '#diffx:', '#.change:', '#..file:', '#...diff:', '#.meta:',
        '#..preamble:']
COARSE = ['#diffx:', '#.change:', '#..file:', '#...diff:', '#.meta:',
          '#..preamble:', ' length=1', '\n', '\r\n', 'x', '{"a": 1}',
          'delta 1', '...', '@@ -1 +1 @@', 'literal 2', '+a', ' ',
          '#...meta:']

HDR_RE = re.compile(r'#\.{0,3}[a-z]+:')
_LEXER = DiffXLexer()


WATCHDOG_S = 5
MAX_TIMEOUTS_PER_UNIT = 2


class Timeout(BaseException):
    pass


class UnitAborted(BaseException):
    pass


def _alarm(signum, frame):
    raise Timeout()


def lex(text):
    return list(_LEXER.get_tokens_unprocessed(text))


def check_lossless(text):
    v = []
    try:
        toks = lex(text)
    except Timeout:
        raise
    except Exception as e:
        from mc.observe import site_of
        return [('lexer-raised:%s' % type(e).__name__, '%r: %r' % (text, e))], []
    pos = 0
    for idx, tt, val in toks:
        if idx != pos:
            v.append(('offsets-not-contiguous', '%r: token %r at %d, expected '
                      '%d' % (text, val, idx, pos)))
            break
        pos = idx + len(val)
    joined = ''.join(val for _, _, val in toks)
    if joined != text:
        # name the first divergence
        i = next((k for k in range(min(len(joined), len(text)))
                  if joined[k] != text[k]), min(len(joined), len(text)))
        v.append(('not-lossless', 'input %r\n output %r\n first difference at '
                  '%d' % (text, joined, i)))
    return v, toks


def check_file(text, headers):
    v, toks = check_lossless(text)
    if v:
        return v
    errs = [val for _, tt, val in toks if tt in Error]
    if errs:
        v.append(('error-token', '%r in %r' % (errs[:3], text[:200])))
    tags = [val for _, tt, val in toks
            if tt is Name.Tag and HDR_RE.fullmatch(val)]
    if tags != headers:
        v.append(('header-tags-differ', 'tags %r\n headers %r\n file %r'
                  % (tags, headers, text[:300])))
    return v


# benign content for part (b)
B_TEXTS = ['a\n', 'line one\nline two\n', 'a', 'x\r\ny\r\n', ' lead\n',
           '@@ -1 +1 @@\n-x\n+y\n', 'é😀\n', '# not a header\n',
           '#diffx: version=1.0\n', '...\n', 'delta 14\n', '{"a": 1}\n']
# Markdown constructs (a lexer may hand text/markdown preambles to a
# Markdown lexer, which hands fenced blocks to further lexers)
B_TEXTS += ['```json\n{"path": "src/main.c", ...}\n```\n',
            '```python\ndef f(:\n    "unterminated\n```\n',
            '# Title\n\n[#diffx:](u) *x* `c` <b>\n\n    indented code\n',
            '```diff\n-a\n+b\n@@ broken\n```\n~~~c\nint main( {\n~~~\n',
            '> quote\n\n1. item\n* * *\n| a | b |\n|---|---|\n']
B_METAS = [{'a': 'x'}, {'path': 'a/b', 'n': [1, {'k': None}]},
           {'é': 'ü', 's': 'two\nlines'}, {'#x': '#y', 't': True}]
# strings that need JSON escapes (quotes, backslashes incl. a trailing one,
# control characters), followed by further strings
B_METAS += [{'op': 'modify', 'path': 'src\\lib\\', 'revision': {'new': 'def',
                                                             'old': 'abc'}},
            {'a': 'q"uote', 'b': 'c:\\dir\\', 'bb': '\\\\', 'c': '\\"',
             'd': 'x\ny\tz', 'e': '\u2028\x7f\x00', 'end\\': 'z'}]
# strings (values and keys) holding every phrase one of the lexer's own rules
# looks for (none contains '#.', which the statement excludes): inside a
# JSON string they are string characters, nothing else
_PHRASES = ['Work in progress...', '...', '.../x', 'abc123...def456', '..',
            '#diffx: version=1.0', '#change:', '# .x', '.#',
            '@@ -1 +1 @@', '--- a', '+++ b', '+x', '-y', '```', '~~~',
            'a=b, c=d', 'length=5', 'delta 14', 'literal 5',
            'diff --git a b', 'index 1..2', 'Binary files differ', '=' * 67,
            '# heading', '* item', '<!-- c -->', '/* c */', '// c', '{}', '[]',
            ':', ',']
B_METAS += [dict(('k%02d' % i, ph) for i, ph in enumerate(_PHRASES)),
            dict((ph, i) for i, ph in enumerate(_PHRASES)),
            {'l': list(_PHRASES)}]
B_DIFFS = [b'a\n', b'--- a\n+++ b\n@@ -1 +1,2 @@\n-x\n+y\n+z\n',
           b'delta 14\nxyz\n', b'literal 5\nabc\n', b'...\n', b'a\r\nb\r\n',
           b'Binary files differ\n', 'é\n'.encode('utf-8'), b'#x\n',
           b'x', b'+\n-\n \n', b'delta 1\ndelta 2\n',
           b'index 1..2\ndelta 3\n']
B_INDENT = [4, 0, 2]
B_LE = [None, 'unix', 'dos']
B_MIME = [None, 'text/markdown']
B_TYPE = [None, 'text', 'binary']

# lines that real diff producers put into diff sections (one per known
# phrase family), each usable after any other
VENDOR_LINES = [
    'diff --git a/src/a.c b/src/a.c', 'diff --git a/x y b/x y',
    'diff -r 1a2b3c4d5e6f src/a.c', 'diff -u a b', 'diff --cc file',
    'old mode 100644', 'new mode 100755', 'new file mode 100644',
    'deleted file mode 100644', 'similarity index 90%',
    'dissimilarity index 7%', 'similarity index 100', 'rename from a',
    'rename to b', 'copy from a', 'copy to b', 'index 1a2b3c..4d5e6f 100644',
    'index 0000000..1a2b3c', 'index 1..2...3', 'GIT binary patch',
    'literal 12', 'delta 14', 'zcmZ?wbhEHb6krfw', 'Binary files a and b differ',
    'Index: src/a.c', '=' * 67, 'RCS file: /cvs/a.c,v',
    'retrieving revision 1.1', '==== //depot/a.c#1 - /ws/a.c ====',
    'Only in a: b', '--- a/src/a.c\t2020-01-01 00:00:00', '+++ b/src/a.c',
    '--- /dev/null', '*** a.c', '***************', '*** 1,2 ****',
    '@@ -1 +1 @@', '@@ -1,2 +1,3 @@ def f():', '@@@ -1 -1 +1 @@@',
    '-x', '+y', ' c', '\\ No newline at end of file', '', '%', 'index', '...',
    'Property changes on: a', '1c1', '< x', '---', '> y',
]

SKELETONS = [
    ['change', 'file', 'meta'],
    ['preamble', 'meta', 'change', 'preamble', 'meta', 'file', 'meta',
     'diff'],
    ['meta', 'change', 'meta', 'file', 'meta', 'diff', 'file', 'meta',
     'change', 'preamble', 'file', 'meta', 'diff'],
    ['preamble', 'change', 'file', 'meta', 'diff', 'file', 'meta', 'diff',
     'file', 'meta', 'diff'],
]


def file_slots(sk):
    slots = []
    calls = []
    for i, kind in enumerate(sk):
        if kind in ('change', 'file'):
            calls.append([kind, None])
        elif kind == 'preamble':
            calls.append(['preamble', 'a\n', None, 4, None, None])
            slots += [(i, 1, B_TEXTS), (i, 3, B_INDENT), (i, 4, B_LE),
                      (i, 5, B_MIME)]
        elif kind == 'meta':
            calls.append(['meta', {'a': 'x'}, None])
            slots += [(i, 1, B_METAS)]
        else:
            calls.append(['diff', b'a\n', None, None, None])
            slots += [(i, 1, B_DIFFS), (i, 2, B_TYPE), (i, 4, B_LE)]
    return slots, calls


def plan(tier):
    units = []
    if tier == 'quick':
        scopes = [('fine', 4), ('coarse', 5)]
        k = 2
    else:
        scopes = [('fine', 5), ('coarse', 6)]
        k = 3
    for name, L in scopes:
        alpha = FINE if name == 'fine' else COARSE
        units.append(('str-short', name))
        for a in range(len(alpha)):
            for b in range(len(alpha)):
                units.append(('str', name, a, b, L))
    for si, sk in enumerate(SKELETONS):
        slots, _ = file_slots(sk)
        combos = []
        for r in range(0, k + 1):
            combos.extend(itertools.combinations(range(len(slots)), r))
        for i in range(0, len(combos), 60):
            units.append(('file', si, combos[i:i + 60]))
    units.append(('orders', 7 if tier == 'quick' else 10))
    nv = len(VENDOR_LINES)
    for a in range(nv):
        units.append(('vendor', a, 2 if tier == 'quick' else 3))
    from mc import wrgraph
    ncfg = len(wrgraph.scale_configs(tier))
    for lo in range(0, ncfg, 4):
        units.append(('scale', lo, min(lo + 4, ncfg)))
    return {
        'units': units,
        'rule': '(a) every string of <= %d tokens over a %d-token alphabet '
                '(header pieces, whole headers, names, ":", space, LF, CRLF, '
                'JSON, "delta 1", hunk header) and <= %d tokens over a '
                '%d-token alphabet of whole headers and content shapes, '
                'tokenised by the real DiffXLexer under a watchdog: '
                'concatenated token values == input and token offsets '
                'contiguous; (b) UTF-8 files serialised from %d skeletons '
                'with every choice vector of <= %d non-default benign '
                'arguments (no "#." in content): additionally no Error token '
                'and the Name.Tag tokens that look like headers equal the '
                'section headers in order; (c) the same for files whose '
                'preambles and diff hold every sequence of <= %d lines from a '
                'catalogue of %d lines that diff producers emit (git extended '
                'headers, svn / cvs / p4 / hg / diff -c / diff -e phrases). '
                'Non-trivial: input contains a '
                'complete header.' % (scopes[0][1], len(FINE), scopes[1][1],
                                      len(COARSE), len(SKELETONS), k,
                                      2 if tier == 'quick' else 3,
                                      len(VENDOR_LINES)),
        'bound': 'fine<=%d, coarse<=%d tokens; files k=%d'
                 % (scopes[0][1], scopes[1][1], k),
        'exhaustive': True,
        'assumptions': ['Pygments as installed in /venv (JsonLexer and '
                        'DiffLexer are part of the trusted base)'],
    }


def run_unit(unit, tier):
    acc = Acc()
    signal.signal(signal.SIGALRM, _alarm)
    timeouts = [0]
    try:
        _unit_body(unit, tier, acc, timeouts)
    except UnitAborted:
        acc.cap_hit = True
    return acc


def _unit_body(unit, tier, acc, timeouts):
    def one_str(text):
        signal.setitimer(signal.ITIMER_REAL, WATCHDOG_S)
        try:
            viols, toks = check_lossless(text)
        except Timeout:
            viols = [('lexer-timeout', repr(text))]
            timeouts[0] += 1
        finally:
            signal.setitimer(signal.ITIMER_REAL, 0)
        acc.evals += 1
        acc.states += 1
        acc.transitions += 1
        acc.validated += 1
        if HDR_RE.search(text):
            acc.nontrivial += 1
        for key, msg in viols:
            acc.violation(key, msg, {'kind': 'str', 'text': text})
        acc.outcome('ok' if not viols else 'violation')
        if timeouts[0] >= MAX_TIMEOUTS_PER_UNIT:
            raise UnitAborted()

    if unit[0] == 'scale':
        # writer-shaped UTF-8 files whose sections take boundary sizes
        from mc import wrgraph
        cfgs = wrgraph.scale_configs(tier)[unit[1]:unit[2]]
        global WATCHDOG_S
        for cfg in cfgs:
            calls = wrgraph.scale_calls(cfg, None, None)
            data, recs = spec.serialize(calls, 'utf-8')
            text = data.decode('utf-8')
            headers = ['#%s:' % r['section'] for r in recs]
            signal.setitimer(signal.ITIMER_REAL, 60)
            try:
                viols = check_file(text, headers)
            except Timeout:
                viols = [('lexer-timeout:scale', 'file of %d characters'
                          % len(text))]
                timeouts[0] += 1
            finally:
                signal.setitimer(signal.ITIMER_REAL, 0)
            acc.evals += 1
            acc.states += 1
            acc.transitions += 1
            acc.validated += 1
            acc.nontrivial += 1
            for key, msg in viols:
                acc.violation(key if key.endswith(':scale')
                              else key + ':scale', msg[:800],
                              {'kind': 'scale', 'cfg': cfg})
            acc.outcome('ok' if not viols else 'violation')
            if timeouts[0] >= MAX_TIMEOUTS_PER_UNIT:
                raise UnitAborted()
        acc.sample({'scale_configuration': cfgs[0]}, 1)
    elif unit[0] == 'orders':
        # every legal order of sections (each adjacency the hierarchy
        # allows, e.g. file metadata directly followed by a new change)
        def walk(prev, calls):
            if calls:
                yield calls
            if len(calls) >= unit[1]:
                return
            for sid in sorted(spec.NEXT[prev]):
                name = sid.lstrip('.')
                c = {'change': ['change', None], 'file': ['file', None],
                     'preamble': ['preamble', 'p\n', None, 2, None, None],
                     'meta': ['meta', {'k': 'v'}, None],
                     'diff': ['diff', b'-a\n+b\n', None, None, None]}[name]
                for x in walk(sid, calls + [c]):
                    yield x
        for calls in walk('diffx', []):
            data, recs = spec.serialize(calls, 'utf-8')
            text = data.decode('utf-8')
            headers = ['#%s:' % r['section'] for r in recs]
            signal.setitimer(signal.ITIMER_REAL, WATCHDOG_S)
            try:
                viols = check_file(text, headers)
            except Timeout:
                viols = [('lexer-timeout', repr(text[:200]))]
                timeouts[0] += 1
            finally:
                signal.setitimer(signal.ITIMER_REAL, 0)
            acc.evals += 1
            acc.states += 1
            acc.transitions += 1
            acc.validated += 1
            acc.nontrivial += 1
            for key, msg in viols:
                acc.violation(key + ':order', msg[:600],
                              {'kind': 'file', 'calls': to_jsonable(calls),
                               'suffix': ':order'})
            acc.outcome('ok' if not viols else 'violation')
            if timeouts[0] >= MAX_TIMEOUTS_PER_UNIT:
                raise UnitAborted()
        acc.sample({'legal_orders_up_to': unit[1]}, 1)
    elif unit[0] == 'vendor':
        _, a, depth = unit
        for n in range(0, depth):
            for t in itertools.product(VENDOR_LINES, repeat=n):
                body = '\n'.join((VENDOR_LINES[a],) + t) + '\n'
                viols = _vendor_case(body, timeouts)
                acc.evals += 1
                acc.states += 1
                acc.transitions += 1
                acc.validated += 1
                acc.nontrivial += 1
                for key, msg in viols:
                    acc.violation(key + ':vendor', msg[:600],
                                  {'kind': 'vendor', 'body': body})
                acc.outcome('ok' if not viols else 'violation')
                if timeouts[0] >= MAX_TIMEOUTS_PER_UNIT:
                    raise UnitAborted()
        acc.sample({'vendor_first_line': VENDOR_LINES[a]}, 1)
    elif unit[0] == 'str-short':
        alpha = FINE if unit[1] == 'fine' else COARSE
        for n in (0, 1):
            for t in itertools.product(alpha, repeat=n):
                one_str(''.join(t))
    elif unit[0] == 'str':
        _, name, a, b, L = unit
        alpha = FINE if name == 'fine' else COARSE
        pre = alpha[a] + alpha[b]
        for n in range(0, L - 1):
            for t in itertools.product(alpha, repeat=n):
                one_str(pre + ''.join(t))
        acc.sample({'prefix': pre, 'alphabet': name}, 1)
    else:
        _, si, combos = unit
        sk = SKELETONS[si]
        slots, base = file_slots(sk)
        for combo in combos:
            alts = [range(1, len(slots[i][2])) for i in combo]
            for choice in itertools.product(*alts):
                calls = [list(c) for c in base]
                for s_i, c_i in zip(combo, choice):
                    ci, ai, dom = slots[s_i]
                    calls[ci][ai] = dom[c_i]
                data, recs = spec.serialize(calls, 'utf-8')
                text = data.decode('utf-8')
                headers = ['#%s:' % r['section'] for r in recs]
                signal.setitimer(signal.ITIMER_REAL, WATCHDOG_S)
                try:
                    viols = check_file(text, headers)
                except Timeout:
                    viols = [('lexer-timeout', repr(text[:200]))]
                    timeouts[0] += 1
                finally:
                    signal.setitimer(signal.ITIMER_REAL, 0)
                acc.evals += 1
                acc.states += 1
                acc.transitions += 1
                acc.validated += 1
                acc.nontrivial += 1
                for key, msg in viols:
                    acc.violation(key, msg, {'kind': 'file',
                                             'calls': to_jsonable(calls)})
                acc.outcome('ok' if not viols else 'violation')
                if timeouts[0] >= MAX_TIMEOUTS_PER_UNIT:
                    raise UnitAborted()
        acc.sample({'skeleton': sk}, 1)


def _vendor_case(body, timeouts=None):
    calls = [['preamble', body, None, 0, None, None], ['change', None],
             ['preamble', body, None, 2, None, None], ['file', None],
             ['meta', {'path': 'src/a.c'}, None],
             ['diff', body.encode('utf-8'), None, None, None]]
    data, recs = spec.serialize(calls, 'utf-8')
    text = data.decode('utf-8')
    headers = ['#%s:' % r['section'] for r in recs]
    signal.signal(signal.SIGALRM, _alarm)
    signal.setitimer(signal.ITIMER_REAL, WATCHDOG_S)
    try:
        return check_file(text, headers)
    except Timeout:
        if timeouts is not None:
            timeouts[0] += 1
        return [('lexer-timeout', repr(body[:200]))]
    finally:
        signal.setitimer(signal.ITIMER_REAL, 0)


def replay(payload):
    if payload.get('kind') == 'vendor':
        return [{'key': k + ':vendor', 'msg': m[:600]}
                for k, m in _vendor_case(payload['body'])]
    signal.signal(signal.SIGALRM, _alarm)
    signal.setitimer(signal.ITIMER_REAL, 2)
    try:
        if payload.get('kind') == 'scale':
            from mc import wrgraph
            data, recs = spec.serialize(
                wrgraph.scale_calls(payload['cfg'], None, None), 'utf-8')
            viols = [(k + ':scale', m) for k, m in check_file(
                data.decode('utf-8'), ['#%s:' % r['section'] for r in recs])]
        elif payload.get('kind') == 'str':
            viols, _ = check_lossless(payload['text'])
        elif payload.get('kind') == 'file':
            calls = from_jsonable(payload['calls'])
            data, recs = spec.serialize(calls, 'utf-8')
            viols = check_file(data.decode('utf-8'),
                               ['#%s:' % r['section'] for r in recs])
            if payload.get('suffix'):
                viols = [(k + payload['suffix'], m[:600]) for k, m in viols]
        else:
            viols = []
    except Timeout:
        viols = [('lexer-timeout', 'no result within %d s' % WATCHDOG_S)]
    finally:
        signal.setitimer(signal.ITIMER_REAL, 0)
    return [{'key': k, 'msg': m} for k, m in viols]
