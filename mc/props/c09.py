"""C09 -- writer section order, atomic rejection, append-only output."""
import itertools

from pydiffx import DiffXWriter
from pydiffx.errors import BaseDiffXError, DiffXSectionOrderError

from mc import spec, wrgraph
from mc.explore import Acc, freeze
from mc.observe import (AppendOnlyStream, ForbiddenStreamOp, apply_call, fresh,
                        freeze_writer, site_of, module_globals_snapshot)
from mc.spec import to_jsonable, from_jsonable

ID = 'C09'
LEVEL = 'model_checking'

# the five calls with simplest valid arguments
BASIC = [
    ['change', None],
    ['file', None],
    ['preamble', 'a\n', None, 4, None, None],
    ['meta', {'a': 'x'}, None],
    ['diff', b'a\n', None, None, None],
]
KIND_OF = {'change': 'change', 'file': 'file', 'preamble': 'preamble',
           'meta': 'meta', 'diff': 'diff'}


class Unserialisable(object):
    def __repr__(self):
        return '<Unserialisable>'


def hostile_calls():
    """(name, section kind it would write, must_raise, call).
    must_raise: True = documented invalid (raises whatever the order);
    'inorder' = must raise at least when in order (unencodable text);
    None = oracle does not decide whether it raises."""
    R = 'raw'
    H = []

    def add(name, kind, must, method, *args, **kw):
        H.append((name, kind, must, [R, method, list(args), kw]))

    for bad in (b'bytes', None, 5, ['a\n']):
        add('preamble-type-%s' % type(bad).__name__, 'preamble', True,
            'write_preamble', bad)
    for bad in ([1], 'x', None, 5, b'{}'):
        add('meta-type-%s' % type(bad).__name__, 'meta', True,
            'write_meta', bad)
    for bad in ('str', None, 5, bytearray(b'a\n')):
        add('diff-type-%s' % type(bad).__name__, 'diff', True,
            'write_diff', bad)
    # ... and the same wrong types accompanied by valid explicit options
    # (an option must not switch validation off)
    for kw in ({'encoding': 'utf-8'}, {'encoding': 'latin-1',
                                       'line_endings': 'unix'}):
        add('preamble-type-bytes+%s' % '+'.join(sorted(kw)), 'preamble', True,
            'write_preamble', b'bytes\n', **kw)
        add('diff-type-str+%s' % '+'.join(sorted(kw)), 'diff', True,
            'write_diff', 'str\n', **kw)
    add('diff-type-str+text', 'diff', True, 'write_diff', 'str\n',
        diff_type='text', encoding='utf-8')
    add('meta-type-str+encoding', 'meta', True, 'write_meta', '{"a": 1}',
        encoding='utf-8')
    add('meta-type-list+format', 'meta', True, 'write_meta', [1],
        meta_format='json')
    add('preamble-type-int+indent', 'preamble', True, 'write_preamble', 5,
        indent=0, mimetype='text/plain')
    add('preamble-empty', 'preamble', True, 'write_preamble', '')
    add('meta-empty', 'meta', True, 'write_meta', {})
    add('diff-empty', 'diff', True, 'write_diff', b'')
    add('preamble-le-mac', 'preamble', True, 'write_preamble', 'a\n',
        line_endings='mac')
    add('preamble-le-DOS', 'preamble', True, 'write_preamble', 'a\n',
        line_endings='DOS')
    add('diff-le-mac', 'diff', True, 'write_diff', b'a\n',
        line_endings='mac')
    add('preamble-mimetype', 'preamble', True, 'write_preamble', 'a\n',
        mimetype='text/html')
    add('diff-type-choice', 'diff', True, 'write_diff', b'a\n',
        diff_type='patch')
    add('meta-format', 'meta', True, 'write_meta', {'a': 'x'},
        meta_format='yaml')
    add('preamble-surrogate', 'preamble', 'inorder', 'write_preamble',
        '\ud800\n')
    # lone surrogates, incl. the range error handlers such as
    # "surrogateescape" map back to raw bytes (U+DC80..U+DCFF)
    for cp in (0xDC80, 0xDCE9, 0xDFFF):
        for enc in (None, 'latin-1', 'ascii'):
            kw = {'encoding': enc} if enc else {}
            add('preamble-surrogate-%04X-%s' % (cp, enc), 'preamble',
                'inorder', 'write_preamble', 'caf' + chr(cp) + '\n', **kw)
    add('preamble-ascii-e', 'preamble', 'inorder', 'write_preamble', 'é\n',
        encoding='ascii')
    add('preamble-latin-emoji', 'preamble', 'inorder', 'write_preamble',
        'a\n\U0001f600\n', encoding='latin-1', indent=0)
    add('meta-unserialisable', 'meta', None, 'write_meta',
        {'a': Unserialisable()})
    add('meta-set', 'meta', None, 'write_meta', {'a': {1, 2}})
    add('meta-nonstr-key', 'meta', None, 'write_meta', {('t',): 1})
    add('preamble-bogus-codec', 'preamble', None, 'write_preamble', 'a\n',
        encoding='bogus')
    add('meta-bogus-codec', 'meta', None, 'write_meta', {'a': 'x'},
        encoding='bogus')
    add('diff-bogus-codec', 'diff', None, 'write_diff', b'a\n',
        encoding='bogus')
    add('preamble-nonascii-codec', 'preamble', None, 'write_preamble', 'a\n',
        encoding='utf-8\xe9')
    add('diff-nonascii-codec', 'diff', None, 'write_diff', b'a\n',
        encoding='utf-8\xe9')
    add('meta-nonascii-codec', 'meta', None, 'write_meta', {'a': 'x'},
        encoding='utf-8\xe9')
    add('change-nonascii-codec', 'change', None, 'new_change',
        encoding='utf-8\xe9')
    add('file-nonascii-codec', 'file', None, 'new_file',
        encoding='latin-1€')
    add('change-bogus-codec', 'change', None, 'new_change', encoding='bogus')
    add('file-int-codec', 'file', None, 'new_file', encoding=5)
    add('preamble-indent-str', 'preamble', None, 'write_preamble', 'a\n',
        indent='abc')
    add('preamble-indent-float', 'preamble', None, 'write_preamble', 'a\n',
        indent=2.5)
    add('preamble-nonascii-mimetype', 'preamble', True, 'write_preamble',
        'a\n', mimetype='text/pl\xe4in')
    add('diff-type-nonascii', 'diff', True, 'write_diff', b'a\n',
        diff_type='t\xe9xt')
    return H


def scale_hostile_calls():
    """Hostile and valid content calls whose content takes boundary sizes
    (a size-selected fast path must validate like the ordinary path)."""
    from mc.alphabets import BOUNDARY_SIZES_Q, sized_text
    R = 'raw'
    H = []
    for n in BOUNDARY_SIZES_Q + [300001, 1300001]:
        t = sized_text(n, 'lines')
        b = t.encode('ascii')
        one = sized_text(n, 'one').encode('ascii')
        H += [
            ('big%d-diff-le-bogus' % n, 'diff', True,
             [R, 'write_diff', [b], {'line_endings': 'bogus'}]),
            ('big%d-diff-one-le-mac' % n, 'diff', True,
             [R, 'write_diff', [one], {'line_endings': 'mac'}]),
            ('big%d-diff-type' % n, 'diff', True,
             [R, 'write_diff', [b], {'diff_type': 'patch'}]),
            ('big%d-diff-valid' % n, 'diff', 'valid',
             [R, 'write_diff', [b], {}]),
            ('big%d-diff-valid-dos' % n, 'diff', 'valid',
             [R, 'write_diff', [b.replace(b'\n', b'\r\n')],
              {'line_endings': 'dos', 'diff_type': 'text'}]),
            ('big%d-preamble-mimetype' % n, 'preamble', True,
             [R, 'write_preamble', [t], {'mimetype': 'text/html'}]),
            ('big%d-preamble-le' % n, 'preamble', True,
             [R, 'write_preamble', [t], {'line_endings': 'mac'}]),
            ('big%d-preamble-unencodable' % n, 'preamble', 'inorder',
             [R, 'write_preamble', [t + '\u20ac\n'],
              {'encoding': 'latin-1'}]),
            ('big%d-preamble-valid' % n, 'preamble', 'valid',
             [R, 'write_preamble', [t], {'indent': 2}]),
            ('big%d-preamble-indent-float' % n, 'preamble', None,
             [R, 'write_preamble', [t], {'indent': 4.0}]),
            ('big%d-preamble-indent-str' % n, 'preamble', None,
             [R, 'write_preamble', [t], {'indent': '4'}]),
            ('big%d-preamble-bogus-codec' % n, 'preamble', None,
             [R, 'write_preamble', [t], {'encoding': 'bogus'}]),
            ('big%d-diff-nonascii-codec' % n, 'diff', None,
             [R, 'write_diff', [b], {'encoding': 'utf-8\xe9'}]),
            ('big%d-meta-format' % n, 'meta', True,
             [R, 'write_meta', [{'k': ['v' * 50] * (n // 60 + 1)}],
              {'meta_format': 'yaml'}]),
            ('big%d-meta-valid' % n, 'meta', 'valid',
             [R, 'write_meta', [{'k': ['v' * 50] * (n // 60 + 1)}], {}]),
        ]
    return H


def model_next(prev, depth, kind):
    """(legal?, new prev, new depth) for a call that would write `kind`."""
    if kind in ('change', 'file'):
        lvl = spec.LEVEL_OF[kind]
        sid = '.' * lvl + kind
        return sid in spec.NEXT[prev], sid, lvl
    sid = '.' * (depth + 1) + kind
    return sid in spec.NEXT[prev], sid, depth


class Run(object):
    """A live writer plus the model state; applies calls one by one and
    checks the per-call obligations."""

    def __init__(self, root='utf-8'):
        self.stream = AppendOnlyStream()
        self.w = DiffXWriter(self.stream, encoding=root)
        self.prev, self.depth = 'diffx', 0
        self.root = root
        self.scope = [root, None, None]
        self.accepted = []
        self.viols = []

    def step(self, call, kind=None, must_raise=None, name=None):
        kind = kind or call[0]
        legal, sid, ndepth = model_next(self.prev, self.depth, kind)
        before = bytes(self.stream.buf)
        fz = freeze_writer(self.w)
        exc = None
        try:
            apply_call(self.w, call)
        except ForbiddenStreamOp as e:
            self.viols.append(('non-append-stream-op:%s' % kind, repr(e)))
            exc = e
        except Exception as e:
            exc = e
        after = bytes(self.stream.buf)
        tag = name or kind
        if exc is not None:
            if after != before:
                self.viols.append((
                    'rejected-call-wrote-bytes:%s:%s' % (
                        tag, type(exc).__name__),
                    'call %r raised %r but the stream grew by %r'
                    % (call, exc, after[len(before):][:80])))
            if freeze_writer(self.w) != fz:
                self.viols.append((
                    'rejected-call-changed-state:%s:%s' % (
                        tag, type(exc).__name__),
                    'call %r raised %r and changed the writer state'
                    % (call, exc)))
            if (must_raise == 'valid' or (must_raise is None and
                                          name is None)) and legal and \
                    self._usable_encoding(call, kind):
                self.viols.append((
                    'legal-call-rejected:%s-after-%s' % (kind, self.prev),
                    '%r after %s raised %r' % (call, self.prev, exc)))
            return False, exc
        # accepted
        if not after.startswith(before) or len(after) <= len(before):
            self.viols.append(('accepted-call-not-append:%s' % tag,
                               'stream did not grow by appending'))
        if must_raise == 'valid':
            must_raise = None
        if must_raise is True or (must_raise == 'inorder' and legal):
            self.viols.append(('invalid-argument-accepted:%s' % tag,
                               'call %r was accepted after %s'
                               % (call, self.prev)))
        if not legal:
            self.viols.append((
                'illegal-order-accepted:%s-after-%s' % (kind, self.prev),
                '%r accepted after %s' % (call, self.prev)))
        self.prev, self.depth = sid, ndepth
        if kind in ('change', 'file'):
            enc = call[1] if call[0] != 'raw' else call[3].get('encoding')
            for j in range(ndepth, 3):
                self.scope[j] = None
            self.scope[ndepth] = enc
        self.accepted.append(call)
        return True, None

    def _usable_encoding(self, call, kind):
        """A continuation call only counts as a call with valid arguments
        when the encoding it inherits is a real codec (a container that was
        accepted with an unknown codec name poisons its scope)."""
        import codecs
        if kind in ('change', 'file', 'diff'):
            return True
        eff = spec.inherited_encoding(self.scope, self.depth)
        try:
            codecs.lookup(eff)
            'a'.encode(eff)
            return True
        except Exception:
            return False


def replay_sequence(root, seq):
    """seq: list of (call, kind, must, name). Returns violations."""
    r = Run(root)
    for call, kind, must, name in seq:
        r.step(call, kind, must, name)
    # differential: a fresh writer that only sees the accepted calls
    # produces the same bytes and ends in the same state
    f = Run(root)
    for c in r.accepted:
        try:
            apply_call(f.w, c)
        except Exception as e:
            r.viols.append(('replay-of-accepted-calls-raised',
                            '%r raised %r when replayed without the '
                            'rejected calls' % (c, e)))
            break
    else:
        if bytes(f.stream.buf) != bytes(r.stream.buf):
            r.viols.append(('rejected-calls-left-a-trace:bytes',
                            'stream differs from a writer that never saw '
                            'the rejected calls'))
        if freeze_writer(f.w) != freeze_writer(r.w):
            r.viols.append(('rejected-calls-left-a-trace:state',
                            'writer state differs from a writer that never '
                            'saw the rejected calls'))
    return r.viols


def seq_len(tier):
    return 7 if tier == 'quick' else 9


HANDOVER_CALLS = [['preamble', 'p\n', None, 4, None, None],
                  ['meta', {'k': 'v'}, None], ['change', None],
                  ['preamble', 'c\n', 'latin-1', 2, None, None],
                  ['file', None], ['meta', {'path': 'f'}, None],
                  ['diff', b'-a\n+b\n', None, None, None], ['file', 'utf-16'],
                  ['meta', {'path': 'g'}, None], ['change', None],
                  ['file', None], ['meta', {'path': 'h'}, None]]


class _SeekableSink(object):
    """A sink that permits everything a file does (tell / seek / truncate):
    whatever the writer does with that freedom, what ends up in the stream
    is the accepted calls' bytes and nothing else."""
    def __init__(self):
        import io
        self._s = io.BytesIO()

    def write(self, b):
        return self._s.write(b)

    def tell(self):
        return self._s.tell()

    def seek(self, *a):
        return self._s.seek(*a)

    def truncate(self, *a):
        return self._s.truncate(*a)

    def flush(self):
        pass

    @property
    def buf(self):
        return self._s.getvalue()


def check_handover(split, how):
    """The writer is handed over after `split` calls: to a deep copy
    (checkpointing), or to another stream by assigning the public `fp`
    attribute. What is written afterwards goes to the writer's current
    stream and nowhere else."""
    import copy
    from mc import spec
    calls = HANDOVER_CALLS
    full, _ = spec.serialize(calls, 'utf-8')
    head, _ = spec.serialize(calls[:split], 'utf-8')
    import io
    real = how.startswith('bytesio')
    s1 = io.BytesIO() if real else AppendOnlyStream()
    _val = lambda st: st.getvalue() if hasattr(st, 'getvalue') \
        else bytes(st.buf)
    w = DiffXWriter(s1, encoding='utf-8')
    try:
        for c in calls[:split]:
            apply_call(w, c)
        if how == 'deepcopy':
            w2 = copy.deepcopy(w)
            s2 = w2.fp
            for c in calls[split:]:
                apply_call(w2, c)
            got_new = bytes(s2.buf)
            want_new = full
        else:
            s2 = io.BytesIO() if real else (
                AppendOnlyStream() if how == 'assign-fp' else _SeekableSink())
            w.fp = s2
            if how.endswith('then-rejected'):
                # a rejected call right after the handover (wrong order /
                # empty content / unknown codec), then the accepted ones
                for bad in (['raw', 'write_diff', [b''], {}],
                            ['raw', 'new_file', [], {}]
                            if split == 0 else
                            ['raw', 'write_preamble', ['x\n'],
                             {'encoding': 'bogus-codec'}],
                            ['raw', 'write_meta', [{}], {}]):
                    try:
                        apply_call(w, bad)
                    except Exception:
                        pass
            for c in calls[split:]:
                apply_call(w, c)
            got_new = _val(s2)
            want_new = full[len(head):]
    except Exception as e:
        return [('handover-raised:%s:%s:%s' % (how, type(e).__name__,
                                               site_of(e)), repr(e))]
    v = []
    if _val(s1) != head:
        v.append(('handover:%s:old-stream-changed' % how,
                  'after %d calls the writer was handed over (%s); the '
                  'first stream now holds %d bytes, expected %d'
                  % (split, how, len(_val(s1)), len(head))))
    if got_new != want_new:
        v.append(('handover:%s:new-stream-wrong' % how,
                  'after %d calls (%s): the current stream holds %r..., '
                  'expected %r...' % (split, how, got_new[-60:],
                                      want_new[-60:])))
    return v


def plan(tier):
    units = []
    L = seq_len(tier)
    # (a) every sequence over the five calls of length <= L, unmerged,
    #     split by the first three calls
    for pre in itertools.product(range(5), repeat=3):
        units.append(('seq', 'utf-8', list(pre)))
    units.append(('seq-short', 'utf-8'))
    # (b) hostile variants from every state of the closed graph
    info = {}
    for root in (['utf-8'] if tier == 'quick' else ['utf-8', 'utf-16']):
        g = wrgraph.scope_graph(root, wrgraph.scope_events(
            [None, 'latin-1'] if tier == 'quick' else
            [None, 'latin-1', 'utf-16']), 9, state_cap=400)
        info[root] = (len(g['seen']), g['closed'])
        hs = sorted(g['seen'].values(), key=lambda h: (len(h), repr(h)))
        for h in hs:
            units.append(('hostile', root, [list(c) for c in h]))
    units.append(('handover', 'utf-8'))
    units.append(('call-syntax', 'utf-8'))
    nsh = len(scale_hostile_calls())
    for lo in range(0, nsh, 6):
        units.append(('scale-hostile', 'utf-8', lo, min(lo + 6, nsh)))
    return {
        'units': units,
        'rule': '(a) every sequence over {new_change, new_file, '
                'write_preamble, write_meta, write_diff} of length <= %d '
                '(5^k, no state merging; rejected calls stay in the history '
                'and the writer continues); (b) from every canonical state '
                'of the closed writer graph %r every one of %d hostile '
                'argument variants followed by every continuation of length '
                '<= 2; (c) content calls whose content takes boundary sizes '
                '(1023..65537 bytes) with invalid options, unencodable text or '
                'valid arguments, from 4 states with continuations of length '
                '1. Oracle: accepted <=> hierarchy automaton allows; a '
                'raising call leaves stream bytes and frozen vars(writer) '
                'unchanged; the final stream/state equal those of a fresh '
                'writer replaying only the accepted calls. Non-trivial: '
                'sequence with a rejection after >= 2 accepted calls.'
                % (L, info, len(hostile_calls())),
        'bound': 'sequence length <= %d; continuation length <= 2' % L,
        'exhaustive': True,
        'assumptions': [
            'acceptance is decided on calls with valid arguments; hostile '
            'variants whose rejection the API does not document are only '
            'required to be atomic if they raise',
            'stream failures (I/O errors) are not modelled',
        ],
    }



def OPT_UNITS(tier):
    """Units repeated in an interpreter started with -O (validation must
    not live in assert statements or __debug__ blocks)."""
    us = plan(tier)['units']
    keep = []
    for kind, n in [('seq-short', 1), ('seq', 12), ('hostile', 18), ('scale-hostile', 3)]:
        keep += [u for u in us if str(u[0]) == kind][:n]
    return keep


# the public signatures (positional order and parameter names) as pinned:
#   DiffXWriter(fp, encoding, version); new_change(encoding);
#   new_file(encoding); write_preamble(text, encoding, indent,
#   line_endings, mimetype); write_meta(metadata, encoding, meta_format);
#   write_diff(content, diff_type, encoding, line_endings)
SYNTAX_CALLS = [
    ('write_preamble', (), {'text': 'by name\n', 'indent': 0}),
    ('new_change', ('latin-1',), {}),
    ('write_preamble', ('summary\n', 'utf-8', 2, 'unix', 'text/markdown'),
     {}),
    ('write_meta', ({'k': 'v'}, 'utf-8', 'json'), {}),
    ('new_file', ('utf-16',), {}),
    ('write_meta', (), {'metadata': {'path': 'f'}, 'encoding': 'utf-8'}),
    ('write_diff', (b'-a\n+b\n', 'text', 'utf-8', 'unix'), {}),
    ('new_file', (), {'encoding': None}),
    ('write_meta', ({'path': 'g'},), {'meta_format': 'json'}),
    ('write_diff', (), {'content': b'x\n', 'diff_type': 'binary'}),
]
SYNTAX_KEYWORD_FORM = [
    ['preamble', 'by name\n', None, 0, None, None],
    ['change', 'latin-1'],
    ['preamble', 'summary\n', 'utf-8', 2, 'unix', 'text/markdown'],
    ['meta', {'k': 'v'}, 'utf-8'], ['file', 'utf-16'],
    ['meta', {'path': 'f'}, 'utf-8'],
    ['diff', b'-a\n+b\n', 'text', 'utf-8', 'unix'], ['file', None],
    ['meta', {'path': 'g'}, None], ['diff', b'x\n', 'binary', None, None],
]


def check_call_syntax(ctor):
    """Options passed by position and contents passed by name are the same
    calls: accepted where the order is legal, same bytes."""
    from mc import spec
    want, _ = spec.serialize(SYNTAX_KEYWORD_FORM, 'utf-16')
    s1 = AppendOnlyStream()
    try:
        if ctor == 'positional':
            w = DiffXWriter(s1, 'utf-16', '1.0')
        elif ctor == 'by-name':
            w = DiffXWriter(fp=s1, encoding='utf-16', version='1.0')
        else:
            w = DiffXWriter(s1, version='1.0', encoding='utf-16')
        for i, (meth, a, k) in enumerate(SYNTAX_CALLS):
            getattr(w, meth)(*fresh(list(a)), **fresh(k))
    except Exception as e:
        return [('legal-call-rejected:call-syntax:%s:%s'
                 % (type(e).__name__, site_of(e)),
                 'constructor %s, then %r: %r' % (ctor, SYNTAX_CALLS[:3], e))]
    if bytes(s1.buf) != want:
        return [('call-syntax-changes-output',
                 'positional / by-name calls wrote %r..., keyword calls '
                 '%r...' % (bytes(s1.buf)[-60:], want[-60:]))]
    return []


def run_call_syntax_unit():
    acc = Acc()
    for ctor in ('positional', 'by-name', 'mixed'):
        viols = check_call_syntax(ctor)
        acc.evals += 1
        acc.states += 1
        acc.transitions += len(SYNTAX_CALLS)
        acc.validated += 1
        acc.nontrivial += 1
        for key, msg in viols:
            acc.violation(key, msg, {'kind': 'call-syntax', 'ctor': ctor})
        acc.outcome('ok' if not viols else 'violation')
    acc.sample({'call_syntax': 'options by position, contents by name'}, 1)
    return acc


def run_handover_unit():
    acc = Acc()
    for how in ('deepcopy', 'assign-fp', 'assign-fp-then-rejected',
                'bytesio-assign', 'bytesio-assign-then-rejected'):
        for split in range(0, len(HANDOVER_CALLS) + 1):
            viols = check_handover(split, how)
            acc.evals += 1
            acc.states += 1
            acc.transitions += len(HANDOVER_CALLS)
            acc.validated += 1
            acc.nontrivial += 1
            for key, msg in viols:
                acc.violation(key, msg, {'kind': 'handover', 'split': split,
                                         'how': how})
            acc.outcome('ok' if not viols else 'violation')
    acc.sample({'handover': 'deepcopy / fp assignment at every split of a '
                            '%d-call history' % len(HANDOVER_CALLS)}, 1)
    return acc


def run_unit(unit, tier):
    if unit[0] == 'handover':
        return run_handover_unit()
    if unit[0] == 'call-syntax':
        return run_call_syntax_unit()
    acc = Acc()
    g0 = module_globals_snapshot()
    if unit[0] in ('seq', 'seq-short'):
        L = seq_len(tier)
        root = unit[1]
        if unit[0] == 'seq-short':
            seqs = [s for n in range(0, 3)
                    for s in itertools.product(range(5), repeat=n)]
        else:
            pre = unit[2]
            seqs = (tuple(pre) + s for n in range(0, L - 2)
                    for s in itertools.product(range(5), repeat=n))
        for s in seqs:
            seq = [(BASIC[i], None, None, None) for i in s]
            viols = replay_sequence(root, seq)
            acc.evals += 1
            acc.states += 1
            acc.transitions += len(s)
            acc.validated += 1
            nt = _nontrivial(s)
            if nt:
                acc.nontrivial += 1
            for key, msg in viols:
                acc.violation(key, '%s\nsequence: %r' % (
                    msg, [BASIC[i][0] for i in s]),
                    {'kind': 'seq', 'root': root, 'seq': list(s)})
            acc.outcome('ok' if not viols else 'violation')
        acc.sample({'sequence_prefix': [BASIC[i][0] for i in unit[2]]}
                   if unit[0] == 'seq' else {'short': True}, 1)
    elif unit[0] == 'scale-hostile':
        _, root, lo, hi = unit
        H = scale_hostile_calls()
        M = ['meta', {'a': 'x'}, None]
        states = [[], [['change', None]],
                  [['change', None], ['file', None], M],
                  [['change', None], ['file', None], M,
                   ['diff', b'a\n', None, None, None]]]
        for hi_, (name, kind, must, call) in enumerate(H[lo:hi]):
            for hist in states:
                for cont in [()] + [(i,) for i in range(5)]:
                    seq = [(c, None, None, None) for c in hist]
                    seq.append((call, kind, must, name))
                    seq.extend((BASIC[i], None, None, None) for i in cont)
                    viols = replay_sequence(root, seq)
                    acc.evals += 1
                    acc.transitions += len(seq)
                    acc.validated += 1
                    acc.nontrivial += 1
                    gname = name.split('-', 1)[1]
                    for key, msg in viols:
                        key = key.replace(name, 'big-' + gname)
                        acc.violation(key, '%s\nhistory %r then %s then %r'
                                      % (msg[:600], [c[:2] for c in hist],
                                         name, [BASIC[i][0] for i in cont]),
                                      {'kind': 'scale-hostile', 'root': root,
                                       'hist': to_jsonable(hist),
                                       'index': lo + hi_, 'name': name,
                                       'cont': list(cont)})
                    acc.outcome('ok' if not viols else 'violation')
        acc.states = 1
        acc.sample({'scale_hostile': [h[0] for h in H[lo:hi]]}, 1)
    else:
        _, root, hist = unit
        H = hostile_calls()
        conts = [()] + [(i,) for i in range(5)] + \
            list(itertools.product(range(5), repeat=2))
        for hi, (name, kind, must, call) in enumerate(H):
            for cont in conts:
                seq = [(c, None, None, None) for c in hist]
                seq.append((call, kind, must, name))
                seq.extend((BASIC[i], None, None, None) for i in cont)
                viols = replay_sequence(root, seq)
                acc.evals += 1
                acc.transitions += len(seq)
                acc.validated += 1
                if len(hist) >= 2:
                    acc.nontrivial += 1
                for key, msg in viols:
                    acc.violation(key, '%s\nhistory %r then hostile %s %r '
                                  'then %r' % (msg, [c[:2] for c in hist],
                                               name, call[1:],
                                               [BASIC[i][0] for i in cont]),
                                  {'kind': 'hostile', 'root': root,
                                   'hist': to_jsonable(hist), 'hostile': hi,
                                   'name': name, 'cont': list(cont)})
                acc.outcome('ok' if not viols else 'violation')
        acc.states = 1
        acc.sample({'state_history': [c[:2] for c in hist],
                    'hostile_variants': len(H)}, 1)
    if module_globals_snapshot() != g0:
        acc.violation('module-globals-mutated', 'a module-level table '
                      'changed while writing', {'kind': 'none'})
    return acc


def _nontrivial(s):
    prev, depth, acc_n = 'diffx', 0, 0
    for i in s:
        legal, sid, nd = model_next(prev, depth, BASIC[i][0])
        if legal:
            prev, depth = sid, nd
            acc_n += 1
        elif acc_n >= 2:
            return True
    return False


def replay(payload):
    if payload.get('kind') == 'call-syntax':
        return [{'key': k, 'msg': m}
                for k, m in check_call_syntax(payload['ctor'])]
    if payload.get('kind') == 'handover':
        return [{'key': k, 'msg': m} for k, m in check_handover(
            payload['split'], payload['how'])]
    k = payload.get('kind')
    if k == 'seq':
        seq = [(BASIC[i], None, None, None) for i in payload['seq']]
        viols = replay_sequence(payload['root'], seq)
    elif k == 'scale-hostile':
        H = scale_hostile_calls()
        name, kind, must, call = H[payload['index']]
        seq = [(c, None, None, None) for c in from_jsonable(payload['hist'])]
        seq.append((call, kind, must, name))
        seq.extend((BASIC[i], None, None, None) for i in payload['cont'])
        gname = name.split('-', 1)[1]
        viols = [(k_.replace(name, 'big-' + gname), m)
                 for k_, m in replay_sequence(payload['root'], seq)]
    elif k == 'hostile':
        H = hostile_calls()
        name, kind, must, call = H[payload['hostile']]
        assert name == payload['name']
        seq = [(c, None, None, None) for c in from_jsonable(payload['hist'])]
        seq.append((call, kind, must, name))
        seq.extend((BASIC[i], None, None, None) for i in payload['cont'])
        viols = replay_sequence(payload['root'], seq)
    else:
        return []
    return [{'key': k_.replace(' ', '_')[:200], 'msg': m} for k_, m in viols]
