"""C03 -- reader yields exactly what the specification says a well-formed
file contains; single spec violations are rejected at the right section."""
import glob
import itertools
import os

from pydiffx.errors import DiffXParseError

from mc import spec, gen, wrgraph
from mc.explore import Acc
from mc.observe import read_all, rec_core, typed_eq, site_of
from mc.spec import to_jsonable, from_jsonable

ID = 'C03'
LEVEL = 'model_checking'


def base_docs(tier):
    """(root, calls, rich) -- 'rich' docs get pairs of variations."""
    docs = []
    roots = ['utf-8', 'utf-16'] if tier == 'quick' else \
        ['utf-8', 'utf-16', 'latin-1', 'utf-32-be']
    sks = wrgraph.structures('quick')
    for root in roots:
        for sk in sks[:4] if tier == 'quick' else sks:
            slots, base = wrgraph.slots_for(sk)
            docs.append((root, [list(c) for c in base], True))
            if tier == 'quick' and (root != 'utf-8' or len(sk) > 13):
                # (quick: single deviations on the three smaller skeletons,
                # which contain every section kind at every level; the
                # largest one contributes its base document with pairs)
                continue
            for (ci, ai, dom) in slots:
                for val in dom[1:]:
                    calls = [list(c) for c in base]
                    calls[ci][ai] = val
                    if not wrgraph.file_domain_ok(calls, root, False):
                        continue
                    if not diffs_conform(calls):
                        continue
                    docs.append((root, calls, False))
    # a few rich multi-deviation documents
    P = lambda t, e=None, i=4, le=None, m=None: ['preamble', t, e, i, le, m]
    rich = [
        ('utf-8', [P('a\r\nb\r\n', None, 2, 'dos', 'text/markdown'),
                   ['meta', {'k': {'sub': [1, 'é']}}, 'utf-16'],
                   ['change', 'latin-1'], P('é\n', None, 0),
                   ['file', 'utf-32-be'], ['meta', {'p': 'é'}, None],
                   ['diff', 'a\r\n'.encode('utf-16'), 'text', 'utf-16',
                    'dos'],
                   ['change', None], ['file', None],
                   ['meta', {'p': 'q'}, None],
                   ['diff', b'x\n', 'binary', None, None]]),
        ('utf-16', [P(' lead\n\n  two\n', None, 7), ['change', None],
                    ['meta', {'a': 'x'}, 'utf-8'], ['file', None],
                    ['meta', {'b': [True, None, 2.5]}, None]]),
    ]
    rich.append(
        ('utf-8', [['change', None], ['file', None],
                   ['meta', {'p': 'q'}, None],
                   ['diff', b'--- a\r\n+++ b\r\nbare\nlf inside\r\n', None,
                    None, 'dos'],
                   ['file', None], ['meta', {'p': 'r'}, None],
                   ['diff', b'x\r\ny\r\n', 'text', None, None],
                   ['change', None],
                   ['preamble', 'dos\r\nwith\nbare lf\r\n', None, 0, 'dos',
                    None],
                   ['file', None], ['meta', {'p': 's'}, None]]))
    # a producer that declares no encoding anywhere (the 'drop:main-encoding'
    # variation applies): all-ASCII contents, every section kind
    rich.append(
        ('utf-8', [P('plain ascii\n', None, 0), ['meta', {'k': 'v'}, None],
                   ['change', None], ['meta', {'id': 'c'}, None],
                   ['file', None], ['meta', {'path': 'f'}, None],
                   ['diff', b'-a\n+b\n', None, None, None]]))
    for root, calls in rich:
        docs.append((root, calls, True))
    return docs


def diffs_conform(calls):
    """A diff that declares an encoding really is text in that encoding
    (otherwise "its newline" has no aligned reading)."""
    from mc.alphabets import misaligned
    for c in calls:
        if c[0] == 'diff' and c[3]:
            try:
                c[1].decode(c[3])
            except UnicodeDecodeError:
                return False
            if misaligned(c[1], c[3]):
                return False
            if spec.unit_size(c[3]) > 1 and \
                    (len(c[1]) - spec._bom_len(c[1], c[3])) % \
                    spec.unit_size(c[3]):
                return False
    return True


def example_files():
    ex = sorted(glob.glob(os.path.join(spec.REPO, 'docs', 'spec',
                                       'example-diffs', '*.diff')))
    return [(os.path.basename(p), open(p, 'rb').read()) for p in ex]


def cmp_records(recs, exc, exp, data, label):
    v = []
    if exc is not None:
        if isinstance(exc, DiffXParseError):
            return [('wellformed-rejected:%s' % label,
                     'reader rejected a well-formed file: %s' % exc)]
        return [('reader-raised:%s:%s' % (type(exc).__name__, site_of(exc)),
                 repr(exc))]
    got = [rec_core(r) for r in recs]
    if len(got) != len(exp):
        return [('record-count:%s' % label, '%d records, expected %d'
                 % (len(got), len(exp)))]
    for i, (g, e) in enumerate(zip(got, exp)):
        e = rec_core(e)
        if not typed_eq(g, e):
            fields = sorted(k for k in set(g) | set(e)
                            if not typed_eq(g.get(k), e.get(k)))
            v.append(('record-differs:%s:%s:%s' % (
                e['section'].lstrip('.'), ','.join(fields), label),
                'record %d (%s):\n got      %s\n expected %s'
                % (i, e['section'], _s(g), _s(e))))
            break
    return v


def _s(x):
    r = repr(x)
    return r if len(r) < 500 else r[:500] + '...'


def check_wellformed(data, exp, label):
    recs, exc, _, _ = read_all(data)
    v = cmp_records(recs, exc, exp, data, label)
    # second oracle: the strict reference parser
    pref, perr = spec.parse(data)
    if perr is not None:
        v.append(('harness:reference-rejects-wellformed:%s' % label,
                  '%s at %r' % (perr.why, perr.lo)))
    elif not v:
        v += cmp_records(recs, exc, pref, data, label + ':ref')
    return v


def check_defective(data, exp_prefix, lo, hi, label):
    pref, perr = spec.parse(data)
    if perr is None:
        return None                   # the generator's defect is no defect
    recs, exc, _, _ = read_all(data)
    v = []
    if exc is None:
        return [('defect-accepted:%s' % label,
                 'a file with the single defect %s was accepted' % label)]
    if not isinstance(exc, DiffXParseError):
        return [('reader-raised:%s:%s' % (type(exc).__name__, site_of(exc)),
                 repr(exc))]
    got = [rec_core(r) for r in recs]
    want = [rec_core(r) for r in exp_prefix]
    if not typed_eq(got, want):
        v.append(('defect-prefix-differs:%s' % label,
                  '%d records before the error, expected %d equal to the '
                  'intact prefix' % (len(got), len(want))))
    if not (lo <= exc.linenum <= hi):
        v.append(('defect-line-outside-section:%s' % label,
                  'linenum %d, offending section spans logical lines '
                  '%d..%d (%s)' % (exc.linenum, lo, hi, exc)))
    return v


def plan(tier):
    docs = base_docs(tier)
    units = []
    step = 6 if tier == 'quick' else 4
    plain = [i for i, d in enumerate(docs) if not d[2]]
    for i in range(0, len(plain), step):
        units.append(('docs', plain[i:i + step], 0, 1))
    K = 16
    for i, d in enumerate(docs):
        if d[2]:
            for k in range(K):
                units.append(('docs', [i], k, K))
    units.append(('examples',))
    sunits, cfgs, variants = wrgraph.scale_units(tier, per_unit=4)
    units += sunits
    return {
        'units': units,
        'rule': '%d abstract documents (5-6 skeletons with every single '
                'content / codec / indent / line-ending / mimetype / type '
                'deviation, plus rich multi-encoding documents) rendered by '
                'an independent generator; x every single foreign-producer '
                'variation (option order permutations, optional options '
                'dropped, explicit inherited encoding, unknown options, '
                'blank / whitespace lines before any header, compact / '
                '2-space / raw non-ASCII JSON, line_endings on metadata) x '
                '{LF headers, CRLF headers, blank lines at EOF}; pairs of '
                'variations on rich documents%s; then every single-defect '
                'mutation (version, length, final newline x4, format, JSON '
                'x4, line_endings x4) at every section it applies to; plus '
                'the 7 specification examples; plus a scale pass (boundary sizes '
                'of every scalable quantity, LF and CRLF headers, defects after '
                'the large sections). Oracle: records == '
                'by-construction records == strict reference parse; '
                'defective: DiffXParseError, intact prefix, linenum inside '
                'the offending section. Non-trivial: variation or defect '
                'present.' % (len(docs), ' and triples' if tier == 'thorough'
                              else ''),
        'bound': 'single variations on all documents, pairs%s on rich ones; '
                 'single defects' % ('/triples' if tier == 'thorough' else ''),
        'exhaustive': True,
        'assumptions': ['content whose UTF-16/32 bytes contain a misaligned '
                        'newline byte pattern is excluded',
                        'logical line numbers: blank separator lines are '
                        'not counted (pinned by the suite)'],
    }



def OPT_UNITS(tier):
    """Units repeated in an interpreter started with -O (validation must
    not live in assert statements or __debug__ blocks)."""
    us = plan(tier)['units']
    keep = []
    for kind, n in [('docs', 12), ('examples', 1)]:
        keep += [u for u in us if str(u[0]) == kind][:n]
    keep += [u for u in us if u[0] == 'scale'][-20:]    # (not the huge ones)
    return keep


def run_unit(unit, tier):
    acc = Acc()

    def judge(viols, payload, nt):
        acc.evals += 1
        acc.states += 1
        acc.transitions += 1
        acc.validated += 1
        if nt:
            acc.nontrivial += 1
        for key, msg in viols:
            acc.violation(key, msg, payload)
        acc.outcome('ok' if not viols else 'violation')

    if unit[0] == 'scale':
        # boundary sizes: records (incl. logical line numbers) of documents
        # with large / numerous / deep sections, the same with CRLF headers,
        # and single defects placed AFTER the large sections
        _, cfgs, variants = wrgraph.scale_units(tier, per_unit=4)
        for ci, vi in unit[1]:
            root, enc, le = variants[vi]
            calls = wrgraph.scale_calls(cfgs[ci], enc, le)
            secs0 = gen.from_calls(calls, root)
            for g in (None, 'crlf-headers'):
                kw = gen.apply_global(g) if g else {}
                data, exp = gen.render([s_.clone() for s_ in secs0], **kw)
                viols = check_wellformed(data, exp, 'scale')
                judge([(k + ':scale', m[:1500]) for k, m in viols],
                      {'kind': 'scale', 'cfg': cfgs[ci], 'variant': vi,
                       'glob': g}, True)
            _, exp_b = gen.render([s_.clone() for s_ in secs0])
            for dlabel, si, f in gen.defects(secs0):
                if si < len(secs0) - 4 or not dlabel.startswith(
                        ('bad-json:truncated', 'length-missing',
                         'no-final-newline:strip')):
                    continue
                secs = [s_.clone() for s_ in secs0]
                if f(secs) is False:
                    continue
                data, _ = gen.render_defective(secs)
                lo = exp_b[si]['line']
                hi = lo + secs0[si].nlines + 1
                lab = '%s:%s:scale' % (dlabel.split(':')[0],
                                       secs0[si].sid.lstrip('.'))
                viols = check_defective(data, exp_b[:si], lo, hi, lab)
                if viols is None:
                    continue
                judge([(k, m[:1500]) for k, m in viols],
                      {'kind': 'scale-defect', 'cfg': cfgs[ci],
                       'variant': vi, 'defect': dlabel, 'si': si}, True)
        acc.sample({'scale_configuration': cfgs[unit[1][0][0]]}, 1)
        return acc
    if unit[0] == 'examples':
        for name, data in example_files():
            pref, perr = spec.parse(data)
            recs, exc, _, _ = read_all(data)
            viols = []
            if perr is not None:
                viols.append(('harness:reference-rejects-example:%s' % name,
                              perr.why))
            else:
                viols = cmp_records(recs, exc, pref, data, 'example')
            judge(viols, {'kind': 'data', 'data': to_jsonable(data),
                          'expect': 'ref'}, False)
        acc.sample({'examples': [n for n, d in example_files()]}, 1)
        return acc

    alldocs = base_docs(tier)
    docs = [alldocs[i] for i in unit[1]]
    part, nparts = unit[2], unit[3]
    for root, calls, rich in docs:
        secs0 = gen.from_calls(calls, root)
        V = gen.variations(secs0)
        combos = [()] + [(i,) for i in range(len(V))]
        if rich:
            # pairs of variations on different aspects
            pair_idx = [i for i, (lab, f) in enumerate(V)
                        if not lab.startswith('blank:') or
                        lab.startswith("blank:b'\\n'")]
            combos += list(itertools.combinations(pair_idx, 2))
            if tier == 'thorough':
                small = pair_idx[::3]
                combos += list(itertools.combinations(small, 3))
        combos = combos[part::nparts]
        for combo in combos:
            if len(combo) == 0 or (rich and len(combo) == 1):
                globs = [None] + gen.GLOBAL_VARIATIONS
            elif len(combo) == 1:
                globs = [None, 'crlf-headers'] if tier == 'thorough' \
                    else [None]
            else:
                globs = [None]
            for g in globs:
                secs = [s.clone() for s in secs0]
                labels = []
                for i in combo:
                    V[i][1](secs)
                    labels.append(V[i][0])
                kw = gen.apply_global(g) if g else {}
                if g:
                    labels.append(g)
                data, exp = gen.render(secs, **kw)
                label = '+'.join(sorted(set(l.split('@')[0].split(':')[0]
                                            for l in labels))) or 'canonical'
                viols = check_wellformed(data, exp, label)
                judge(viols, {'kind': 'wellformed',
                              'data': to_jsonable(data),
                              'exp': to_jsonable(exp), 'label': label,
                              'how': labels}, bool(labels))
        # defects: on the canonical rendering, and (rich) on every single
        # variation
        bases = [()] + ([(i,) for i in range(len(V))] if rich else [])
        bases = bases[part::nparts]
        for combo in bases:
            for g in ([None, 'crlf-headers']
                      if not combo and (rich or tier == 'thorough')
                      else [None]):
                secs_b = [s.clone() for s in secs0]
                for i in combo:
                    V[i][1](secs_b)
                kw = gen.apply_global(g) if g else {}
                _, exp_b = gen.render(secs_b, **kw)
                for dlabel, si, f in gen.defects(secs_b):
                    secs = [s.clone() for s in secs_b]
                    if f(secs) is False:
                        continue
                    data, _ = gen.render_defective(secs, **kw)
                    lo = exp_b[si]['line']
                    hi = lo + secs_b[si].nlines + 1
                    lab = dlabel.split('=')[0] if '=' in dlabel else dlabel
                    lab = '%s:%s' % (lab, secs_b[si].sid.lstrip('.'))
                    viols = check_defective(data, exp_b[:si], lo, hi, lab)
                    if viols is None:
                        acc.outcome('defect-not-a-defect')
                        continue
                    judge(viols, {'kind': 'defective',
                                  'data': to_jsonable(data),
                                  'prefix': to_jsonable(exp_b[:si]),
                                  'lo': lo, 'hi': hi, 'label': lab}, True)
    acc.sample({'root': docs[0][0], 'calls': [c[:2] for c in docs[0][1]],
                'variations': len(gen.variations(
                    gen.from_calls(docs[0][1], docs[0][0])))}, 1)
    return acc


def replay(payload):
    k = payload.get('kind')
    if k in ('scale', 'scale-defect'):
        _, cfgs, variants = wrgraph.scale_units('quick', per_unit=4)
        root, enc, le = variants[payload['variant']]
        secs0 = gen.from_calls(wrgraph.scale_calls(payload['cfg'], enc, le),
                               root)
        if k == 'scale':
            kw = gen.apply_global(payload['glob']) if payload['glob'] else {}
            data, exp = gen.render(secs0, **kw)
            return [{'key': k_ + ':scale', 'msg': m}
                    for k_, m in check_wellformed(data, exp, 'scale')]
        _, exp_b = gen.render([s_.clone() for s_ in secs0])
        for dlabel, si, f in gen.defects(secs0):
            if dlabel == payload['defect'] and si == payload['si']:
                secs = [s_.clone() for s_ in secs0]
                f(secs)
                data, _ = gen.render_defective(secs)
                lo = exp_b[si]['line']
                lab = '%s:%s:scale' % (dlabel.split(':')[0],
                                       secs0[si].sid.lstrip('.'))
                return [{'key': k_, 'msg': m} for k_, m in (check_defective(
                    data, exp_b[:si], lo, lo + secs0[si].nlines + 1, lab)
                    or [])]
        return []
    if k == 'wellformed':
        viols = check_wellformed(from_jsonable(payload['data']),
                                 from_jsonable(payload['exp']),
                                 payload['label'])
    elif k == 'defective':
        viols = check_defective(from_jsonable(payload['data']),
                                from_jsonable(payload['prefix']),
                                payload['lo'], payload['hi'],
                                payload['label']) or []
    elif k == 'data':
        data = from_jsonable(payload['data'])
        pref, perr = spec.parse(data)
        recs, exc, _, _ = read_all(data)
        viols = cmp_records(recs, exc, pref, data, 'example')
    else:
        viols = []
    return [{'key': k_, 'msg': m} for k_, m in viols]
