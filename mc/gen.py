"""Spec-derived file generator: abstract document -> bytes + expected records,
with foreign-producer variations and single-defect mutations (DESIGN C03).
Imports nothing from pydiffx."""
import copy
import itertools
import json

from mc import spec


class Sec(object):
    """One section of a document under construction."""
    __slots__ = ('sid', 'opts', 'body', 'ckey', 'cval', 'nlines', 'kind',
                 'eff', 'blank_before', 'is_content')

    def __init__(self, sid, opts, body=b'', ckey=None, cval=None, nlines=0,
                 kind=None, eff=None):
        self.sid = sid
        self.opts = opts            # list of [key, str value], no length
        self.body = body
        self.ckey = ckey
        self.cval = cval
        self.nlines = nlines
        self.kind = kind            # 'unix' / 'dos' of the content
        self.eff = eff              # effective codec of the content
        self.blank_before = []      # list of blank-line byte strings
        self.is_content = sid in spec.CONTENT_IDS

    def clone(self):
        s = Sec(self.sid, [list(o) for o in self.opts], self.body, self.ckey,
                copy.deepcopy(self.cval), self.nlines, self.kind, self.eff)
        s.blank_before = list(self.blank_before)
        return s


def from_calls(calls, root):
    """Sections of the canonical serialisation of `calls`."""
    data, recs = spec.serialize(calls, root)
    secs = []
    pos = 0
    scope = [None, None, None]
    depth = 0
    for i, rec in enumerate(recs):
        j = data.index(b'\n', pos)
        n = rec['options'].get('length', 0) \
            if rec['section'] in spec.CONTENT_IDS else 0
        body = data[j + 1:j + 1 + n]
        pos = j + 1 + n
        opts = [[k, _sv(v)] for k, v in sorted(rec['options'].items())
                if k != 'length']
        ckey = cval = None
        for k in ('text', 'metadata', 'diff'):
            if k in rec:
                ckey, cval = k, rec[k]
        nxt = recs[i + 1]['line'] if i + 1 < len(recs) else None
        sid = rec['section']
        kind = eff = None
        if sid in spec.CONTAINER_IDS:
            lvl = rec['level']
            for q in range(lvl, 3):
                scope[q] = None
            scope[lvl] = rec['options'].get('encoding')
            depth = lvl
        else:
            own = rec['options'].get('encoding')
            eff = own if sid == '...diff' else (
                own or spec.inherited_encoding(scope, depth))
            kind = rec['options'].get('line_endings')
            if kind is None:
                kind = 'unix'
        s = Sec(sid, opts, body, ckey, cval, 0, kind, eff)
        if s.is_content:
            indent = rec['options'].get('indent', 0) \
                if ckey == 'text' else 0
            s.nlines = len(spec.split_indented(
                body, spec.nl(kind, eff), spec.unit_size(eff), indent,
                spec.signature(eff) if eff else b'')[0])
        secs.append(s)
    return secs


def _sv(v):
    return str(v)


def render(secs, hnl=b'\n', tail=b'', length_pos=None):
    """Bytes + expected records. `length` is inserted at its alphabetical
    place among the options unless the section's opts already hold a
    ['length', ...] placeholder position (used by option-order variations)."""
    out = []
    recs = []
    line = 0
    scope = [None, None, None]
    depth = 0
    for s in secs:
        for b in s.blank_before:
            out.append(b)
        opts = [list(o) for o in s.opts]
        if s.is_content and not any(o[0] == 'length' for o in opts):
            opts.append(['length', str(len(s.body))])
            opts.sort(key=lambda o: o[0])
        for o in opts:
            if o[0] == 'length' and o[1] is None:
                o[1] = str(len(s.body))
        hdr = b'#' + s.sid.encode('ascii') + b':'
        if opts:
            hdr += b' ' + b', '.join(('%s=%s' % (k, v)).encode('ascii')
                                     for k, v in opts)
        out.append(hdr + hnl)
        out.append(s.body)
        rec = {'level': len(s.sid) - len(s.sid.lstrip('.')), 'line': line,
               'options': {k: spec.conv(v) for k, v in opts},
               'section': s.sid, 'type': s.sid.lstrip('.')}
        line += 1
        if s.sid in spec.CONTAINER_IDS:
            lvl = rec['level']
            for q in range(lvl, 3):
                scope[q] = None
            enc = dict(opts).get('encoding')
            scope[lvl] = enc
            depth = lvl
        else:
            rec[s.ckey] = expected_content(s, dict(opts), scope, depth)
            line += s.nlines
        recs.append(rec)
    out.append(tail)
    return b''.join(out), recs


def expected_content(s, opts, scope, depth):
    """Content the specification assigns to the section as rendered (the
    effective encoding may have been changed by a variation)."""
    own = opts.get('encoding')
    if s.ckey == 'diff':
        return s.body
    eff = own or spec.inherited_encoding(scope, depth)
    if s.ckey == 'metadata':
        return s.cval
    # preamble
    if eff is None:
        indent = int(opts.get('indent', 0))
        kind = opts.get('line_endings')
        if kind not in ('unix', 'dos'):
            kind = s.kind
        r = spec.split_indented(s.body, spec.nl(kind, None), 1, indent)
        return b''.join(r[1])
    return s.cval


# ------------------------------------------------------------- variations

def variations(secs):
    """List of (label, function(secs) -> None mutating a cloned list).
    Each is a single foreign-producer deviation."""
    V = []
    if secs and dict(secs[0].opts).get('encoding') == 'utf-8' and \
            all(s.eff in (None, 'utf-8') for s in secs if s.is_content) and \
            not any(dict(s.opts).get('encoding') for s in secs[1:]):
        # a producer that declares no encoding at all: content stays bytes
        V.append(('drop:main-encoding@0', _mk_drop(0, 'encoding')))
    for i, s in enumerate(secs):
        n = len(s.opts) + (1 if s.is_content else 0)
        if n >= 2:
            for name, perm in _orders(n):
                V.append(('order:%s@%d' % (name, i), _mk_order(i, perm)))
        if s.ckey == 'metadata':
            if any(o[0] == 'format' for o in s.opts):
                V.append(('drop:format@%d' % i, _mk_drop(i, 'format')))
            V.append(('json:compact@%d' % i, _mk_json(i, 'compact')))
            V.append(('json:indent2@%d' % i, _mk_json(i, 'indent2')))
            V.append(('json:raw-nonascii@%d' % i, _mk_json(i, 'raw')))
            V.append(('add:line_endings@%d' % i,
                      _mk_add(i, 'line_endings', 'unix')))
        if s.ckey in ('text', 'diff') and s.kind is not None:
            if any(o[0] == 'line_endings' for o in s.opts) and \
                    _detectable(s):
                V.append(('drop:line_endings@%d' % i,
                          _mk_drop(i, 'line_endings')))
        if s.ckey == 'text':
            ind = int(dict(s.opts).get('indent', 0) or 0)
            if ind >= 2 and s.kind is not None:
                # a producer that indents some lines less than declared
                # (textwrap.indent leaves blank lines alone; a hand-edited
                # line): "up to indent spaces are removed"
                nl_ = s.body.count(spec.nl(s.kind, s.eff))
                for li in sorted(set(range(min(nl_, 8))) | {-1} if nl_
                                 else (0,)):
                    for k in sorted(set((1, ind - 1, ind))):
                        V.append(('partial-indent:%d:%d@%d' % (li, k, i),
                                  _mk_partial_indent(i, li, k, ind)))
            if dict(s.opts).get('indent') == '0':
                V.append(('drop:indent@%d' % i, _mk_drop(i, 'indent')))
            if any(o[0] == 'mimetype' for o in s.opts):
                V.append(('drop:mimetype@%d' % i, _mk_drop(i, 'mimetype')))
        if s.ckey == 'diff' and any(o[0] == 'type' for o in s.opts):
            V.append(('drop:type@%d' % i, _mk_drop(i, 'type')))
        if s.is_content and s.ckey != 'diff' and s.eff and \
                not any(o[0] == 'encoding' for o in s.opts):
            V.append(('explicit-encoding@%d' % i,
                      _mk_add(i, 'encoding', s.eff)))
        V.append(('add:unknown@%d' % i, _mk_add(i, 'x-producer', 'v1.2/a')))
        V.append(('add:unknown-int@%d' % i, _mk_add(i, 'zz', '-7')))
        if i == len(secs) - 1:
            # values that look like integers to int() but not to the format
            for val in ('-4_2', '2024_01_15', '007', '1e3'):
                V.append(('add:unknown-intlike:%s@%d' % (val, i),
                          _mk_add(i, 'zy', val)))
        for bl in (b'\n', b'  \n', b'\n\n', b'\t\n'):
            V.append(('blank:%r@%d' % (bl, i), _mk_blank(i, bl)))
    return V


def _detectable(s):
    """Dropping line_endings keeps the reading only if first-line detection
    gives the declared kind."""
    indent = int(dict(s.opts).get('indent', 0)) if s.ckey == 'text' else 0
    sig = spec.signature(s.eff) if s.eff else b''
    fl = spec.split_indented(s.body, spec.nl('unix', s.eff),
                             spec.unit_size(s.eff), indent, sig)
    k = 'dos' if fl[0] and fl[1][0].endswith(spec.nl('dos', s.eff)) \
        else 'unix'
    return k == s.kind


def _consistent(s):
    """Every line of the content is terminated by the detected kind, so a
    reader that detects instead of being told splits the same way."""
    other = 'dos' if s.kind == 'unix' else 'unix'
    nlb = spec.nl(s.kind, s.eff)
    if s.kind == 'unix':
        # no CRLF confusion possible: splitting on LF is the same
        return True
    # dos declared: all LFs must be preceded by CR
    u = spec.nl('unix', s.eff)
    body = s.body
    i = body.find(u)
    while i != -1:
        if not body[:i + len(u)].endswith(nlb):
            return False
        i = body.find(u, i + 1)
    return True


def _orders(n):
    if n <= 3:
        ident = tuple(range(n))
        return [('perm%s' % ''.join(map(str, p)), p)
                for p in itertools.permutations(range(n)) if p != ident]
    rev = tuple(reversed(range(n)))
    rot = tuple(list(range(1, n)) + [0])
    rot2 = tuple([n - 1] + list(range(0, n - 1)))
    return [('reverse', rev), ('rotate', rot), ('rotate-back', rot2)]


def _mk_order(i, perm):
    def f(secs):
        s = secs[i]
        opts = [list(o) for o in s.opts]
        if s.is_content:
            opts.append(['length', None])
            opts.sort(key=lambda o: o[0])
        s.opts = [opts[p] for p in perm if p < len(opts)] + \
            [o for k, o in enumerate(opts) if k not in perm]
    return f


def _mk_drop(i, key):
    def f(secs):
        secs[i].opts = [o for o in secs[i].opts if o[0] != key]
    return f


def _mk_add(i, key, value):
    def f(secs):
        s = secs[i]
        if any(o[0] == key for o in s.opts):
            return
        s.opts = sorted(s.opts + [[key, value]], key=lambda o: o[0])
    return f


def _mk_partial_indent(i, li, k, ind):
    def f(secs):
        s = secs[i]
        sig = spec.signature(s.eff) if s.eff else b''
        r = spec.split_indented(s.body, spec.nl(s.kind, s.eff),
                                spec.unit_size(s.eff), ind, sig)
        raw, stripped = list(r[0]), r[1]
        if not raw or li >= len(raw) or \
                not raw[li].startswith(b' ' * ind) or \
                stripped[li][:1] == b' ':
            return          # (nothing to vary on this line)
        raw[li] = raw[li][k:]
        s.body = b''.join(raw)
    return f


def _mk_blank(i, bl):
    def f(secs):
        secs[i].blank_before.append(bl)
    return f


def _mk_json(i, how):
    def f(secs):
        s = secs[i]
        obj = s.cval
        if how == 'compact':
            text = json.dumps(obj, separators=(',', ':'), sort_keys=False)
        elif how == 'indent2':
            text = json.dumps(obj, indent=2, sort_keys=True)
        else:
            text = json.dumps(obj, indent=4, sort_keys=True,
                              ensure_ascii=False)
        nlt = {'unix': '\n', 'dos': '\r\n'}[s.kind or 'unix']
        text = text.replace('\n', nlt) + nlt
        try:
            s.body = text.encode(s.eff)
        except UnicodeEncodeError:
            return
        s.nlines = text.count('\n')
    return f


GLOBAL_VARIATIONS = ['crlf-headers', 'eof-blank', 'eof-blank2',
                     'eof-unterminated-blank']


def apply_global(name):
    if name == 'crlf-headers':
        return {'hnl': b'\r\n'}
    if name == 'eof-blank':
        return {'tail': b'\n'}
    if name == 'eof-blank2':
        return {'tail': b'\n  \n'}
    if name == 'eof-unterminated-blank':
        return {'tail': b'   '}
    return {}


# ---------------------------------------------------------------- defects

def defects(secs):
    """List of (label, section index, function(secs)) -- each introduces
    exactly one spec violation that must be rejected at that section."""
    D = []
    for i, s in enumerate(secs):
        if s.sid == 'diffx':
            D.append(('version-missing', i, _mk_drop(i, 'version')))
            for v in ('2.0', '1', '1.0.1', '1.00', 'v1.0'):
                D.append(('version=%s' % v, i, _mk_set(i, 'version', v)))
        if s.is_content:
            D.append(('length-missing', i, _mk_nolength(i)))
            if len(s.body) >= 10:
                # integer spellings the format does not have but Python's
                # int() accepts (PEP 515 underscores)
                ln = str(len(s.body))
                D.append(('length-underscore', i,
                          _mk_set(i, 'length', ln[0] + '_' + ln[1:])))
            for how in ('replace-newline', 'strip-newline', 'other-kind',
                        'half-newline', 'dangling-indent'):
                D.append(('no-final-newline:%s' % how, i,
                          _mk_nonewline(i, how)))
            for v in ('mac', 'DOS', '5', 'Unix'):
                D.append(('line_endings=%s' % v, i,
                          _mk_set(i, 'line_endings', v)))
        if s.ckey == 'metadata':
            for v in ('yaml', '5', 'JSON'):
                D.append(('format=%s' % v, i, _mk_set(i, 'format', v)))
            for how in ('truncated', 'trailing-comma', 'single-quotes',
                        'empty-line', 'invalid-utf8'):
                D.append(('bad-json:%s' % how, i, _mk_badjson(i, how)))
    return D


def _mk_set(i, key, value):
    def f(secs):
        s = secs[i]
        s.opts = sorted([o for o in s.opts if o[0] != key] + [[key, value]],
                        key=lambda o: o[0])
        return True
    return f


def _mk_nolength(i):
    def f(secs):
        s = secs[i]
        s.opts = [o for o in s.opts if o[0] != 'length'] + \
            [['length', '__omit__']]
        return True
    return f


def _mk_nonewline(i, how):
    def f(secs):
        s = secs[i]
        nlb = spec.nl(s.kind, s.eff)
        if not s.body.endswith(nlb):
            return False
        x = spec.enc_nobom('x', s.eff or 'ascii')
        if how == 'replace-newline':
            fill = (x * len(nlb))[:len(nlb)]
            if len(fill) != len(nlb):
                return False
            s.body = s.body[:-len(nlb)] + fill
        elif how == 'strip-newline':
            s.body = s.body[:-len(nlb)]
            if not s.body or s.body.endswith(nlb):
                return False
        elif how == 'dangling-indent':
            # a complete line followed by part of the next line's
            # indentation: the content does not end in its newline
            ind = dict(s.opts).get('indent')
            if s.ckey != 'text' or not ind or int(ind) < 1:
                return False
            s.body = s.body + b' ' * min(int(ind), 3)
        elif how == 'other-kind':
            if s.kind != 'dos':
                return False
            u = spec.nl('unix', s.eff)
            s.body = s.body[:-len(nlb)] + x + u
        else:
            if len(nlb) < 2:
                return False
            s.body = s.body[:-1]
        return True
    return f


def _mk_badjson(i, how):
    def f(secs):
        s = secs[i]
        eff = s.eff or 'utf-8'      # (JSON without any encoding is UTF-8)
        try:
            text = s.body.decode(eff)
        except Exception:
            return False
        nlt = {'unix': '\n', 'dos': '\r\n'}[s.kind or 'unix']
        core = text[:-len(nlt)]
        if how == 'invalid-utf8':
            # a byte that is not valid in the section's encoding, inside a
            # JSON string (a Latin-1 name in a file that says, or implies,
            # UTF-8)
            if eff.lower().replace('_', '-') not in ('utf-8', 'ascii') or \
                    b'"' not in s.body:
                return False
            j = s.body.index(b'"') + 1
            s.body = s.body[:j] + b'caf\xe9' + s.body[j:]
            return True
        if how == 'truncated':
            core = core.rstrip()[:-1].rstrip()
        elif how == 'trailing-comma':
            core = core.rstrip()[:-1].rstrip() + ',' + nlt + '}'
        elif how == 'single-quotes':
            if '"' not in core:
                return False
            core = core.replace('"', "'")
        else:
            core = ''
        if not core and how != 'empty-line':
            return False
        s.body = (core + nlt).encode(eff)
        return True
    return f


def render_defective(secs, **kw):
    """Like render(), but honours the '__omit__' length marker."""
    secs2 = []
    for s in secs:
        secs2.append(s)
    data, recs = render(secs2, **kw)
    data = data.replace(b', length=__omit__', b'').replace(
        b'length=__omit__, ', b'').replace(b' length=__omit__', b'')
    return data, recs
