"""Exploration primitives shared by all property modules.

* Acc           -- per-unit accumulator (counts, outcomes, violations, samples)
* deviations    -- every choice vector with <= k non-default entries (2.2)
* strings       -- every string over an alphabet up to length n (2.3)
* bfs           -- explicit-state search where a state is the history that
                   reaches it and is deduplicated on a canonical freeze (2.1)
* freeze        -- canonical, hashable deep freeze of Python data
"""
import itertools
from collections import deque


def clean_key(key):
    """Stable, single-token form of a violation key."""
    return (key.replace('\\', '/').replace(' ', '_').replace('\n', '/n')
            .replace('\r', '/r').replace('\t', '/t'))[:200]


# Heartbeat shared with the supervising process (mc/main.py): a counter of
# finished evaluations. If it stops advancing the supervisor kills the unit
# and reports non-termination -- needed because a call stuck inside C code
# (e.g. catastrophic regular-expression backtracking) never lets a Python
# signal handler run.
HEARTBEAT = [None]
_BEATS = [0]


def beat():
    _BEATS[0] += 1
    hb = HEARTBEAT[0]
    if hb is not None:
        hb.seek(0)
        hb.write(_BEATS[0].to_bytes(8, 'little'))


class Acc(object):
    def __init__(self):
        self.evals = 0
        self.nontrivial = 0
        self.states = 0
        self.transitions = 0
        self.validated = 0
        self.outcomes = {}
        self.violations = {}
        self.samples = []
        self.extra = {}
        self.cap_hit = False

    def outcome(self, name, n=1):
        self.outcomes[name] = self.outcomes.get(name, 0) + n
        beat()

    def violation(self, key, msg, payload):
        key = clean_key(key)
        v = self.violations.get(key)
        if v is None:
            self.violations[key] = {'key': key, 'msg': msg,
                                    'payload': payload, 'count': 1}
        else:
            v['count'] += 1

    def sample(self, s, limit=2):
        if len(self.samples) < limit:
            self.samples.append(s)

    def as_dict(self):
        return {
            'evals': self.evals, 'nontrivial': self.nontrivial,
            'states': self.states, 'transitions': self.transitions,
            'validated': self.validated, 'outcomes': self.outcomes,
            'violations': list(self.violations.values()),
            'samples': self.samples, 'extra': self.extra,
            'cap_hit': self.cap_hit,
        }


def deviations(domains, k):
    """Yield (vector, ndev) for every choice vector over `domains` (a list of
    lists, element 0 = default) with at most k non-default entries, in order
    of increasing number of deviations (fewest-deviation counterexample is
    found first)."""
    n = len(domains)
    base = [d[0] for d in domains]
    for r in range(0, k + 1):
        for idxs in itertools.combinations(range(n), r):
            alts = [range(1, len(domains[i])) for i in idxs]
            for combo in itertools.product(*alts):
                v = list(base)
                for i, c in zip(idxs, combo):
                    v[i] = domains[i][c]
                yield v, r


def count_deviations(domains, k):
    n = len(domains)
    total = 0
    for r in range(0, k + 1):
        for idxs in itertools.combinations(range(n), r):
            p = 1
            for i in idxs:
                p *= len(domains[i]) - 1
            total += p
    return total


def strings(alphabet, maxlen, minlen=0):
    for n in range(minlen, maxlen + 1):
        for t in itertools.product(alphabet, repeat=n):
            yield t


def freeze(x, _depth=0):
    """Canonical hashable form. dicts and sets are sorted by the repr of the
    frozen key so unordered collections compare equal regardless of order."""
    if _depth > 40:
        return ('<deep>',)
    t = type(x)
    if t is str or t is bytes or t is int or t is float or t is bool \
            or x is None:
        return (t.__name__, x)
    if isinstance(x, (str, bytes, int, float)):
        return (type(x).__name__, x)
    if isinstance(x, dict):
        if all(type(k) is str for k in x):
            return ('dict', tuple((('str', k), freeze(x[k], _depth + 1))
                                  for k in sorted(x)))
        items = [(freeze(k, _depth + 1), freeze(v, _depth + 1))
                 for k, v in x.items()]
        return ('dict', tuple(sorted(items, key=repr)))
    if isinstance(x, (list, tuple)):
        return (type(x).__name__, tuple(freeze(i, _depth + 1) for i in x))
    if isinstance(x, (set, frozenset)):
        return ('set', tuple(sorted((freeze(i, _depth + 1) for i in x),
                                    key=repr)))
    # arbitrary objects (e.g. a per-iteration state object a refactoring
    # introduced): freeze their attributes, never their repr() -- the
    # default repr contains the memory address and would make every state
    # distinct
    d = {}
    for klass in type(x).__mro__:
        for name in getattr(klass, '__slots__', ()) or ():
            if isinstance(name, str) and hasattr(x, name):
                d[name] = getattr(x, name)
    if hasattr(x, '__dict__'):
        d.update(vars(x))
    if d:
        return ('obj', type(x).__name__, freeze(d, _depth + 1))
    if isinstance(x, type) or callable(x):
        return ('callable', getattr(x, '__qualname__', type(x).__name__))
    import re as _re
    return ('obj', type(x).__name__,
            _re.sub(r' at 0x[0-9a-fA-F]+', '', repr(x)))


def bfs(initial, successors, step, depth, on_transition=None):
    """Generic explicit-state BFS.

    initial      -- list of (history) roots; a history is a tuple of events
    successors   -- f(history, state_key) -> iterable of events
    step         -- f(history + (event,)) -> (state_key or None, info)
                    executes the REAL code on a fresh replay of the history;
                    state_key None = terminal (rejected / no future)
    Returns dict(seen=dict key->history, transitions=int, closed=bool,
                 frontier_cut=int, max_depth=int)
    """
    seen = {}
    frontier = deque()
    transitions = 0
    for h in initial:
        key, info = step(tuple(h))
        transitions += 1
        if key is not None and key not in seen:
            seen[key] = tuple(h)
            frontier.append((tuple(h), key))
    cut = 0
    maxd = 0
    while frontier:
        hist, key = frontier.popleft()
        maxd = max(maxd, len(hist))
        for ev in successors(hist, key):
            h2 = hist + (ev,)
            k2, info = step(h2)
            transitions += 1
            if on_transition is not None:
                on_transition(hist, key, ev, k2, info)
            if k2 is None or k2 in seen:
                continue
            if len(h2) >= depth:
                cut += 1
                seen[k2] = h2
                continue
            seen[k2] = h2
            frontier.append((h2, k2))
    return {'seen': seen, 'transitions': transitions, 'closed': cut == 0,
            'frontier_cut': cut, 'max_depth': maxd}
