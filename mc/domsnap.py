"""Harness-side view of object-model trees: own walker (never uses DOM ==),
deep snapshots, identity (aliasing) walk, tree builders."""
import copy

from pydiffx.dom import DiffX
from pydiffx.dom import objects as dom_objects

from mc.explore import freeze


def snap_content(sec):
    return {'id': sec.section_id, 'cls': type(sec).__name__,
            'options': copy.deepcopy(sec.options),
            'content': copy.deepcopy(sec._content)}


def snap_file(f):
    return {'id': f.section_id, 'options': copy.deepcopy(f.options),
            'meta': snap_content(f.meta_section),
            'diff': snap_content(f.diff_section)}


def snap_change(c):
    return {'id': c.section_id, 'options': copy.deepcopy(c.options),
            'preamble': snap_content(c.preamble_section),
            'meta': snap_content(c.meta_section),
            'files': [snap_file(f) for f in c.files]}


def snap(d):
    if d is None:
        return None
    return {'id': d.section_id, 'options': copy.deepcopy(d.options),
            'preamble': snap_content(d.preamble_section),
            'meta': snap_content(d.meta_section),
            'changes': [snap_change(c) for c in d.changes]}


def fsnap(d):
    return freeze(snap(d))


def sections_of(d):
    """Every section object of a tree with a path label."""
    out = [('diffx', d), ('diffx.preamble', d.preamble_section),
           ('diffx.meta', d.meta_section)]
    for ci, c in enumerate(d.changes):
        p = 'change[%d]' % ci
        out += [(p, c), (p + '.preamble', c.preamble_section),
                (p + '.meta', c.meta_section)]
        for fi, f in enumerate(c.files):
            q = '%s.file[%d]' % (p, fi)
            out += [(q, f), (q + '.meta', f.meta_section),
                    (q + '.diff', f.diff_section)]
    return out


def _mutables(x, path, acc, depth=0):
    if isinstance(x, dict):
        acc.append((id(x), path))
        if depth < 8:
            for k, v in x.items():
                _mutables(v, '%s[%r]' % (path, k), acc, depth + 1)
    elif isinstance(x, (list, set, bytearray)):
        acc.append((id(x), path))
        if depth < 8 and isinstance(x, list):
            for i, v in enumerate(x):
                _mutables(v, '%s[%d]' % (path, i), acc, depth + 1)


def owned_mutables(d, label):
    """(id, path) of every mutable object owned by a tree: option dicts,
    content (recursively), subsection lists."""
    acc = []
    for path, sec in sections_of(d):
        _mutables(sec.options, '%s:%s.options' % (label, path), acc)
        if hasattr(sec, '_content'):
            _mutables(sec._content, '%s:%s.content' % (label, path), acc)
    acc.append((id(d.changes), '%s:diffx.changes' % label))
    for ci, c in enumerate(d.changes):
        acc.append((id(c.files), '%s:change[%d].files' % (label, ci)))
        for fi, f in enumerate(c.files):
            acc.append((id(f.subsections),
                        '%s:change[%d].file[%d].subsections' % (label, ci,
                                                                fi)))
    secs = [(id(sec), '%s:%s' % (label, path))
            for path, sec in sections_of(d)]
    return acc, secs


def module_level_mutables():
    """Every dict / list / set bound at module level in pydiffx.* (caches,
    tables), walked recursively: a tree must not share objects with them."""
    import sys
    import types
    acc = []
    for mname, mod in list(sys.modules.items()):
        if not (mname == 'pydiffx' or mname.startswith('pydiffx.')) or \
                '.tests' in mname or mod is None:
            continue
        for name, val in list(vars(mod).items()):
            if name.startswith('__') or isinstance(val, (type,
                                                         types.ModuleType)):
                continue
            if isinstance(val, (dict, list, set)):
                _mutables(val, 'module %s.%s' % (mname, name), acc)
    # the same table imported into several modules is one object, not
    # aliasing: keep the first path per object
    seen = set()
    out = []
    for i, path in acc:
        if i not in seen:
            seen.add(i)
            out.append((i, path))
    return out


def class_default_mutables():
    acc = module_level_mutables()
    for name in dir(dom_objects):
        c = getattr(dom_objects, name)
        if isinstance(c, type) and issubclass(c,
                                              dom_objects.BaseDiffXSection):
            _mutables(c.__dict__.get('default_options'),
                      'class %s.default_options' % name, acc)
            _mutables(c.__dict__.get('default_value'),
                      'class %s.default_value' % name, acc)
    return acc


def aliasing(trees):
    """Mutable objects (or section objects) reachable from two different
    places. trees: list of (label, tree). Returns list of (pathA, pathB)."""
    seen = {}
    out = []
    allm = list(class_default_mutables())
    for label, t in trees:
        if t is None:
            continue
        m, secs = owned_mutables(t, label)
        allm += m + secs
    for i, path in allm:
        if i in seen and seen[i] != path:
            out.append((seen[i], path))
        else:
            seen[i] = path
    return out


# ----------------------------------------------------------------- builders

SAMPLE_DIFF = b'--- a\n+++ b\n@@ -1 +1,2 @@\n-x\n+y\n+z\n'


def build_tree(spec_):
    """spec_: dict(main=attrs, changes=[dict(attrs=.., files=[attrs..])])
    built only through public constructors."""
    if 'parse' in spec_:
        # a tree reached by loading a file (a non-initial state)
        return DiffX.from_bytes(spec_['parse'])
    from mc.observe import fresh
    d = DiffX(**fresh(copy.deepcopy(spec_.get('main', {}))))
    for c in spec_.get('changes', []):
        ch = d.add_change(**fresh(copy.deepcopy(c.get('attrs', {}))))
        for f in c.get('files', []):
            ch.add_file(**fresh(copy.deepcopy(f)))
    return d


def tree_from_snap(s):
    """A fresh tree, built through the public API, that has exactly the
    state recorded in snapshot `s` (used as the 'reached from elsewhere'
    side of differential oracles)."""
    def fill(sec, node):
        sec.options.clear()
        sec.options.update(copy.deepcopy(node['options']))

    def fill_content(sec, node):
        fill(sec, node)
        c = copy.deepcopy(node['content'])
        if c is not None:
            sec.content = c
    d = DiffX()
    fill(d, s)
    fill_content(d.preamble_section, s['preamble'])
    fill_content(d.meta_section, s['meta'])
    for cs in s['changes']:
        c = d.add_change()
        fill(c, cs)
        fill_content(c.preamble_section, cs['preamble'])
        fill_content(c.meta_section, cs['meta'])
        for fs in cs['files']:
            f = c.add_file()
            fill(f, fs)
            fill_content(f.meta_section, fs['meta'])
            fill_content(f.diff_section, fs['diff'])
    return d
