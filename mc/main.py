"""CLI: ./check <ID> [--tier quick|thorough] [--replay file] [--workers N]

Runs one property's exhaustive exploration on a pool of forked workers,
aggregates per-unit results, triages violations against known_findings.txt,
re-executes every reported violation from its replay payload (twice) before
printing it, writes evidence/<ID>.json and exits 0 / 1 (2 = harness error).
"""
import argparse
import hashlib
import importlib
import json
import multiprocessing as mp
import os
import re
import subprocess
import sys
import time
import traceback

ROOT = os.path.dirname(os.path.dirname(os.path.abspath(__file__)))
REPO = os.environ.get('VERIF_REPO', '/repo')


def load_prop(pid):
    return importlib.import_module('mc.props.%s' % pid.lower())


def known_findings():
    out = {}
    path = os.path.join(ROOT, 'known_findings.txt')
    if not os.path.exists(path):
        return out
    for line in open(path, encoding='utf-8'):
        line = line.strip()
        if not line.startswith('finding:'):
            continue
        parts = line[len('finding:'):].split()
        d = {}
        rest = []
        for p in parts:
            if '=' in p and p.split('=', 1)[0] in ('property', 'key') \
               and p.split('=', 1)[0] not in d:
                k, v = p.split('=', 1)
                d[k] = v
            else:
                rest.append(p)
        if 'property' in d and 'key' in d:
            out[(d['property'], d['key'])] = ' '.join(rest)
    return out


_PROP = None
_TIER = None


def _stall_limit():
    if os.environ.get('VERIF_STALL_S'):
        return float(os.environ['VERIF_STALL_S'])
    return 90.0 if _TIER == 'quick' else 600.0


def _run_one(arg):
    """Run one unit in a forked child under a heartbeat watchdog: if no
    evaluation finishes for _stall_limit() seconds the child is killed and
    the unit is reported as not terminating."""
    import mmap
    import pickle
    import select
    import signal as _signal
    idx, unit = arg
    if os.environ.get('VERIF_NO_FORK'):
        return _run_one_inline(arg)
    hb = mmap.mmap(-1, 8)
    r, w = os.pipe()
    pid = os.fork()
    if pid == 0:
        os.close(r)
        try:
            from mc import explore
            explore.HEARTBEAT[0] = hb
            res = _run_one_inline(arg)
            data = pickle.dumps(res)
        except BaseException:
            data = pickle.dumps({'unit_index': idx, 'crash': True,
                                 'in_impl': False, 'site': '', 'etype': '?',
                                 'trace': traceback.format_exc(),
                                 'unit': repr(unit)[:500]})
        try:
            off = 0
            while off < len(data):
                off += os.write(w, data[off:off + 65536])
        finally:
            os._exit(0)
    os.close(w)
    chunks = []
    last = -1
    last_change = time.time()
    limit = _stall_limit()
    stalled = False
    while True:
        ready, _, _ = select.select([r], [], [], 1.0)
        if ready:
            b = os.read(r, 1 << 20)
            if not b:
                break
            chunks.append(b)
            last_change = time.time()
            continue
        hb.seek(0)
        cur = int.from_bytes(hb.read(8), 'little')
        if cur != last:
            last = cur
            last_change = time.time()
        elif time.time() - last_change > limit:
            stalled = True
            try:
                os.kill(pid, _signal.SIGKILL)
            except OSError:
                pass
            break
    os.close(r)
    try:
        os.waitpid(pid, 0)
    except OSError:
        pass
    hb.close()
    if stalled:
        return {'unit_index': idx, 'stall': True, 'after': last,
                'unit': unit, 'limit': limit}
    try:
        return pickle.loads(b''.join(chunks))
    except Exception:
        return {'unit_index': idx, 'crash': True, 'in_impl': False,
                'site': '', 'etype': 'ChildDied',
                'trace': 'the unit\'s child process died without a result',
                'unit': repr(unit)[:500]}


def _run_one_inline(arg):
    idx, unit = arg
    t0 = time.time()
    try:
        res = _PROP.run_unit(unit, _TIER)
        if hasattr(res, 'as_dict'):
            res = res.as_dict()
        res['unit_index'] = idx
        res['unit_wall'] = time.time() - t0
        return res
    except BaseException as e:   # harness or implementation crash
        tb = traceback.extract_tb(e.__traceback__)
        in_impl = bool(tb) and '/pydiffx/' in tb[-1].filename
        site = ''
        if tb:
            site = '%s:%s' % (os.path.basename(tb[-1].filename), tb[-1].name)
        return {
            'unit_index': idx, 'crash': True, 'in_impl': in_impl,
            'site': site, 'etype': type(e).__name__,
            'trace': traceback.format_exc(), 'unit': repr(unit)[:500],
        }


def sha(s):
    return hashlib.sha256(s.encode('utf-8', 'replace')).hexdigest()[:12]


def write_replay(pid, key, msg, payload):
    os.makedirs(os.path.join(ROOT, 'replays'), exist_ok=True)
    rel = os.path.join('replays', '%s-%s.json' % (pid, sha(key)))
    doc = {
        'property': pid, 'key': key, 'message': msg, 'payload': payload,
        'how_to_run': './check %s --replay %s' % (pid, rel),
    }
    if OPT_PASS:
        # found under "python -O" (assert statements compiled away)
        doc['python_optimize'] = True
    with open(os.path.join(ROOT, rel), 'w') as f:
        json.dump(doc, f, indent=1, sort_keys=True, default=repr)
    return rel


OPT_PASS = False
OPT_SUFFIX = ':alt-interpreter'
# how the second pass starts the interpreter: assert statements compiled
# away, the int <-> str digit limit lifted; logging is set to DEBUG below
ALT_FLAGS = ['-O', '-X', 'int_max_str_digits=0']


def replay_in_subprocess(pid, rel):
    """Re-execute a replay file in a fresh process; return (rc, keys)."""
    env = dict(os.environ)
    try:
        p = subprocess.run(
            [sys.executable] + (ALT_FLAGS if OPT_PASS else []) +
            ['-m', 'mc.main', pid, '--replay', rel, '--quiet'],
            cwd=ROOT, env=env, capture_output=True, text=True, timeout=120)
    except subprocess.TimeoutExpired:
        return 2, ['<replay-timed-out>'], 'replay timed out'
    keys = sorted(l.split('=', 1)[1] for l in p.stdout.splitlines()
                  if l.startswith('REPLAY-KEY='))
    return p.returncode, keys, p.stdout + p.stderr


def _tuplify(x):
    """Units are tuples (JSON turned them into lists)."""
    if isinstance(x, list):
        return tuple(_tuplify(i) if isinstance(i, list) and i and
                     not isinstance(i[0], (list, dict)) and len(i) < 6
                     else i for i in x)
    return x


def do_replay(pid, path, quiet=False):
    global _PROP, _TIER
    prop = load_prop(pid)
    doc = json.load(open(path if os.path.isabs(path)
                         else os.path.join(ROOT, path)))
    if doc.get('python_optimize') and not sys.flags.optimize:
        # the finding needs an interpreter started with -O
        p = subprocess.run([sys.executable] + ALT_FLAGS + ['-m', 'mc.main', pid,
                            '--replay', path] + (['--quiet'] if quiet
                                                 else []), cwd=ROOT)
        return p.returncode
    suffix = OPT_SUFFIX if doc.get('python_optimize') else ''
    if doc['payload'].get('kind') == 'unit-stall':
        from mc.spec import from_jsonable
        _PROP, _TIER = prop, doc['payload'].get('tier', 'quick')
        os.environ['VERIF_STALL_S'] = os.environ.get('VERIF_REPLAY_STALL_S',
                                                     '25')
        unit = from_jsonable(doc['payload']['unit'])
        res = _run_one((0, unit))
        viols = []
        if res.get('stall'):
            viols = [{'key': 'does-not-terminate:unit-stall',
                      'msg': 'unit stalled again after %d evaluations'
                      % res['after']}]
    elif doc['payload'].get('kind') == 'unit-rerun':
        from mc.spec import from_jsonable
        _PROP, _TIER = prop, doc['payload'].get('tier', 'quick')
        unit = from_jsonable(doc['payload']['unit'])
        res = _run_one_inline((0, unit))
        from mc.explore import clean_key as _ck
        viols = [{'key': v['key'], 'msg': v['msg']}
                 for v in res.get('violations', [])
                 if _ck(v['key']) + suffix == doc['payload']['key']]
    else:
        viols = prop.replay(doc['payload'])
    kf = known_findings()
    rc = 0
    from mc.explore import clean_key
    for v in viols:
        v['key'] = clean_key(v['key']) + suffix
        print('REPLAY-KEY=%s' % v['key'])
        if not quiet:
            print('  %s' % v['msg'])
        base = v['key'][:-len(OPT_SUFFIX)] \
            if v['key'].endswith(OPT_SUFFIX) else v['key']
        if (pid, base) in kf:
            print('KNOWN-FINDING: property=%s key=%s %s'
                  % (pid, v['key'], kf[(pid, base)]))
        else:
            if not quiet:
                print('VIOLATION property=%s replay=%s' % (pid, path))
            rc = 1
    if not viols and not quiet:
        print('replay: no violation reproduced')
    return rc


def main(argv=None):
    global _PROP, _TIER
    ap = argparse.ArgumentParser()
    ap.add_argument('pid')
    ap.add_argument('--tier', default=os.environ.get('VERIF_TIER', 'quick'),
                    choices=['quick', 'thorough'])
    ap.add_argument('--replay')
    ap.add_argument('--quiet', action='store_true')
    ap.add_argument('--workers', type=int,
                    default=int(os.environ.get('VERIF_WORKERS', '0')) or
                    min(16, os.cpu_count() or 1))
    ap.add_argument('--no-evidence', action='store_true')
    ap.add_argument('--max-units', type=int, default=0)
    ap.add_argument('--only-kinds', default='',
                    help='debugging aid: run only units whose kind (first '
                         'element) is in this comma-separated list; implies '
                         'no evidence is written')
    ap.add_argument('--opt-pass', action='store_true',
                    help='internal: run the OPT_UNITS under python -O')
    args = ap.parse_args(argv)
    pid = args.pid.upper()

    global OPT_PASS
    OPT_PASS = bool(args.opt_pass)
    if sys.flags.optimize:
        # alternative interpreter configuration: every logger enabled at
        # DEBUG (records go nowhere)
        import logging
        logging.disable(logging.NOTSET)
        root = logging.getLogger()
        root.setLevel(logging.DEBUG)
        root.addHandler(logging.NullHandler())
        logging.getLogger('pydiffx').setLevel(logging.DEBUG)
    if args.replay:
        sys.exit(do_replay(pid, args.replay, args.quiet))

    try:
        seed = int(os.environ.get('VERIF_SEED', '0'))
    except ValueError:
        seed = 0
    t0 = time.time()
    prop = load_prop(pid)
    _PROP, _TIER = prop, args.tier

    from mc import spec
    spec.selfcheck_light()

    # replay files of earlier runs of this property are stale
    import glob
    for old_replay in ([] if args.opt_pass else glob.glob(
            os.path.join(ROOT, 'replays', '%s-*.json' % pid))):
        try:
            os.remove(old_replay)
        except OSError:
            pass

    plan = prop.plan(args.tier)
    units = list(plan['units'])
    if args.opt_pass:
        units = list(prop.OPT_UNITS(args.tier))
    if args.only_kinds:
        kinds = set(args.only_kinds.split(','))
        units = [u for u in units if isinstance(u, (tuple, list)) and u and
                 str(u[0]) in kinds]
        args.no_evidence = True
    if args.max_units:
        units = units[:args.max_units]
    n = len(units)
    order = list(range(n))
    if n:
        k = seed % n
        order = order[k:] + order[:k]
    cap = plan.get('wall_cap_s')
    results = [None] * n
    cap_hit = False
    work = [(i, units[i]) for i in order]
    if args.workers <= 1 or n <= 1:
        for w in work:
            r = _run_one(w)
            results[r['unit_index']] = r
            if cap and time.time() - t0 > cap:
                cap_hit = True
                break
    else:
        ctx = mp.get_context('fork')
        pool = ctx.Pool(min(args.workers, n))
        try:
            for r in pool.imap_unordered(_run_one, work, chunksize=1):
                results[r['unit_index']] = r
                if cap and time.time() - t0 > cap:
                    cap_hit = True
                    break
        finally:
            pool.terminate()
            pool.join()

    done = [r for r in results if r is not None]
    harness_errors = []
    viols = {}       # key -> (unit_index, msg, payload, count)
    agg = {'evals': 0, 'nontrivial': 0, 'states': 0, 'transitions': 0,
           'validated': 0}
    outcomes = {}
    samples = []
    extra = {}
    unit_caps = 0
    for r in sorted(done, key=lambda r: r['unit_index']):
        if r.get('stall'):
            from mc.spec import to_jsonable
            key = 'does-not-terminate:unit-stall'
            viols.setdefault(key, [r['unit_index'],
                                   'no evaluation finished for %d s (after '
                                   '%d evaluations) in unit %s'
                                   % (r['limit'], r['after'],
                                      repr(r['unit'])[:300]),
                                   {'kind': 'unit-stall',
                                    'unit': to_jsonable(r['unit']),
                                    'tier': args.tier}, 0])
            viols[key][3] += 1
            unit_caps += 1
            continue
        if r.get('crash'):
            if r['in_impl']:
                key = 'crash:%s:%s' % (r['etype'], r['site'])
                viols.setdefault(key, [r['unit_index'],
                                       'unit crashed inside pydiffx:\n'
                                       + r['trace'],
                                       {'kind': 'unit', 'unit': r['unit']},
                                       0])
                viols[key][3] += 1
            else:
                harness_errors.append(r)
            continue
        for k in agg:
            agg[k] += int(r.get(k, 0))
        for k, v in r.get('outcomes', {}).items():
            outcomes[k] = outcomes.get(k, 0) + v
        for s in r.get('samples', []):
            if len(samples) < 6:
                samples.append(s)
        for k, v in r.get('extra', {}).items():
            if isinstance(v, bool):
                extra[k] = extra.get(k, True) and v
            elif isinstance(v, (int, float)):
                extra[k] = extra.get(k, 0) + v
            else:
                extra.setdefault(k, v)
        if r.get('cap_hit'):
            unit_caps += 1
        for v in r.get('violations', []):
            e = viols.setdefault(v['key'] + (OPT_SUFFIX if OPT_PASS else ''),
                                 [r['unit_index'], v['msg'], v['payload'], 0])
            e[3] += v.get('count', 1)

    if hasattr(prop, 'finish'):
        # optional cross-unit step (e.g. merging state graphs)
        fin = prop.finish(done, args.tier) or {}
        for k, v in fin.get('extra', {}).items():
            extra[k] = v
        for k in agg:
            if k in fin:
                agg[k] = fin[k]
        for v in fin.get('violations', []):
            e = viols.setdefault(v['key'], [n, v['msg'], v['payload'], 0])
            e[3] += 1

    kf = known_findings()
    unknown = []
    known_hit = []
    nonrepro = []
    for key in sorted(viols, key=lambda k: (viols[k][0], k)):
        ui, msg, payload, cnt = viols[key]
        base = key[:-len(OPT_SUFFIX)] if key.endswith(OPT_SUFFIX) else key
        if (pid, base) in kf:
            known_hit.append(key)
            if not OPT_PASS:        # (the main pass already printed it)
                print('KNOWN-FINDING: property=%s key=%s %s (%d occurrences)'
                      % (pid, key, kf[(pid, base)], cnt))
            continue
        unknown.append(key)
        if len(unknown) > 25:
            continue
        rel = write_replay(pid, key, msg, payload)
        ok = True
        if len(unknown) <= 8 and payload.get('kind') != 'unit' \
                and not os.environ.get('VERIF_NO_REVALIDATE'):
            rc1, k1, o1 = replay_in_subprocess(pid, rel)
            rc2, k2, o2 = replay_in_subprocess(pid, rel)
            if k1 != k2 or key not in k1:
                # the single case does not fail on its own: the failure may
                # depend on what ran before it in the same process (a cache,
                # a recycled object id). Re-run the WHOLE unit, from a fresh
                # process, twice.
                ok = False
                if ui < len(units):
                    from mc.spec import to_jsonable
                    rel2 = write_replay(pid, key, msg, {
                        'kind': 'unit-rerun', 'tier': args.tier,
                        'unit': to_jsonable(units[ui]), 'key': key})
                    r1 = replay_in_subprocess(pid, rel2)
                    r2 = replay_in_subprocess(pid, rel2)
                    if key in r1[1] and key in r2[1]:
                        ok = True
                        rel = rel2
                if not ok:
                    nonrepro.append((key, k1, k2, o1[-2000:]))
                    unknown.pop()
        if ok:
            print('VIOLATION property=%s replay=%s' % (pid, rel))
            print('  key=%s (%d occurrences)' % (key, cnt))
            for line in str(msg).splitlines()[:12]:
                print('  | ' + line[:300])
    if len(unknown) > 25:
        print('  ... %d further distinct violation keys not listed'
              % (len(unknown) - 25))

    opt_rc = 0
    opt_info = None
    if hasattr(prop, 'OPT_UNITS') and not args.opt_pass and \
            not os.environ.get('VERIF_NO_OPT_PASS'):
        # the same units once more in an interpreter started with -O
        # (assert statements and __debug__ blocks compiled away)
        cp = subprocess.run(
            [sys.executable] + ALT_FLAGS + ['-m', 'mc.main', pid, '--tier', args.tier,
             '--opt-pass', '--no-evidence', '--workers', str(args.workers)],
            cwd=ROOT, capture_output=True, text=True)
        opt_rc = cp.returncode
        for line in cp.stdout.splitlines():
            if line.startswith(('VIOLATION', 'KNOWN-FINDING', '  key=',
                                '  | ')):
                print(line)
            m = re.match(r'%s \w+: units=(\d+)/(\d+) .* evals=(\d+) .* '
                         r'violations=(\d+)' % pid, line)
            if m:
                opt_info = {'units': int(m.group(2)),
                            'units_completed': int(m.group(1)),
                            'evaluations': int(m.group(3)),
                            'violations': int(m.group(4))}
        if opt_rc not in (0, 1):
            sys.stderr.write(cp.stderr[-3000:])

    wall = time.time() - t0
    complete = (len(done) == n and not cap_hit and not unit_caps
                and not harness_errors)
    cov = {
        'states': max(1, agg['states']),
        'transitions': max(1, agg['transitions']),
        'traces_validated_against_impl': agg['validated'],
        'evaluations': agg['evals'],
        'distinct_nontrivial': agg['nontrivial'],
        'rule': plan.get('rule', ''),
        'samples': samples or ['(no samples recorded)'],
        'exhaustive': bool(plan.get('exhaustive', True) and complete),
        'bound_completed': plan.get('bound', ''),
        'units_total': n, 'units_completed': len(done),
        'cap_hit': bool(cap_hit or unit_caps),
        'distinct_outcomes': len(outcomes),
        'outcomes': dict(sorted(outcomes.items(),
                                key=lambda kv: -kv[1])[:40]),
        'known_findings_hit': known_hit,
        'violation_keys': unknown[:25],
        'workers': args.workers,
    }
    cov.update(extra)
    if opt_info is not None:
        opt_info['interpreter'] = ' '.join(ALT_FLAGS) + ', logging at DEBUG'
        cov['alt_interpreter_pass'] = opt_info
    ev = {
        'property_id': pid, 'tier': args.tier, 'seed': seed,
        'level': getattr(prop, 'LEVEL', 'model_checking'),
        'coverage': cov,
        'assumptions': plan.get('assumptions', []),
        'wall_s': round(wall, 2),
        'violations': len(unknown) + ((opt_info or {}).get('violations', 0)),
    }
    if not args.no_evidence:
        os.makedirs(os.path.join(ROOT, 'evidence'), exist_ok=True)
        with open(os.path.join(ROOT, 'evidence', '%s.json' % pid), 'w') as f:
            json.dump(ev, f, indent=1, sort_keys=True, default=repr)
            f.write('\n')
    print('%s %s: units=%d/%d states=%d transitions=%d evals=%d '
          'nontrivial=%d outcomes=%d violations=%d known=%d wall=%.1fs%s'
          % (pid, args.tier, len(done), n, agg['states'], agg['transitions'],
             agg['evals'], agg['nontrivial'], len(outcomes), len(unknown),
             len(known_hit), wall, ' CAP-HIT' if cov['cap_hit'] else ''))
    if harness_errors or (nonrepro and not unknown):
        for r in harness_errors[:3]:
            print('HARNESS-ERROR in unit %s:\n%s' % (r['unit'], r['trace']),
                  file=sys.stderr)
        for x in nonrepro[:3]:
            print('HARNESS-ERROR non-reproducing violation %r: %r vs %r\n%s'
                  % x, file=sys.stderr)
        sys.exit(2)
    for x in nonrepro[:3]:
        # confirmed violations exist; these further observations did not
        # reproduce from a fresh process and are not reported as violations
        print('UNCONFIRMED (not reproduced from a fresh process): %r'
              % (x[0],), file=sys.stderr)
    if opt_rc not in (0, 1):
        sys.exit(2)
    sys.exit(1 if (unknown or opt_rc == 1) else 0)


if __name__ == '__main__':
    main()
