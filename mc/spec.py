"""Reference models written from docs/spec/*.rst and the property statements.

This module imports NOTHING from pydiffx. It is the independent oracle:

* NEXT            hierarchy automaton (bound to docs/spec/section-format.rst)
* nl / signature  newline bytes of a codec, BOM measured not looked up
* json_pretty     own JSON pretty-printer (sorted keys, 4 spaces)
* serialize       calls -> canonical bytes + by-construction records
* parse           strict reading of a byte string -> records | error
"""
import base64
import codecs
import json
import os
import re

REPO = os.environ.get('VERIF_REPO', '/repo')

LEGAL_IDS = ['diffx', '.preamble', '.meta', '.change', '..preamble',
             '..meta', '..file', '...meta', '...diff']
CONTENT_IDS = {'.preamble', '.meta', '..preamble', '..meta', '...meta',
               '...diff'}
CONTAINER_IDS = {'diffx', '.change', '..file'}

# Transcribed by hand from the state tree in docs/spec/section-format.rst,
# reading its "..change" as the typo for ".change", plus the one edge
# "..preamble" -> "..meta" that the tree omits but sections.rst (preamble
# optional, then metadata optional) and C09's statement require.
NEXT = {
    None: {'diffx'},
    'diffx': {'.preamble', '.meta', '.change'},
    '.preamble': {'.meta', '.change'},
    '.meta': {'.change'},
    '.change': {'..preamble', '..meta', '..file'},
    '..preamble': {'..meta', '..file'},
    '..meta': {'.change', '..file'},
    '..file': {'...meta'},
    '...meta': {'...diff', '..file', '.change'},
    '...diff': {'..file', '.change'},
}
EXTRA_EDGES = {('..preamble', '..meta')}


def doc_state_tree():
    """Parse the state tree out of section-format.rst."""
    path = os.path.join(REPO, 'docs', 'spec', 'section-format.rst')
    text = open(path, encoding='utf-8').read()
    start = text.index('state tree')
    end = text.index('.. _spec-section-types:')
    tree = {}
    cur = None
    for line in text[start:end].splitlines():
        m = re.match(r'^(\s*)\* ``([.a-z]+)``\s*$', line)
        if not m:
            continue
        if len(m.group(1)) == 0:
            cur = m.group(2)
            tree[cur] = set()
        else:
            tree[cur].add(m.group(2))
    return tree


def selfcheck_light():
    tree = doc_state_tree()
    fixed = {k: {('.change' if v == '..change' else v) for v in vs}
             for k, vs in tree.items()}
    mine = {k: set(v) for k, v in NEXT.items() if k is not None}
    for a, b in EXTRA_EDGES:
        assert b in mine[a]
        mine[a] = mine[a] - {b}
    assert mine == fixed, ('hierarchy automaton differs from the document',
                           mine, fixed)
    assert set(NEXT) - {None} == set(LEGAL_IDS)


# ----------------------------------------------------------------- codecs

def signature(codec):
    """Bytes a codec emits for the empty string (its BOM), measured."""
    return ''.encode(codec)


def enc_nobom(s, codec):
    sig = signature(codec)
    b = s.encode(codec)
    assert b.startswith(sig)
    return b[len(sig):]


def nl(kind, codec):
    """Newline bytes of kind 'unix'/'dos' in codec (None = ASCII), BOM-free."""
    s = {'unix': '\n', 'dos': '\r\n'}[kind]
    return enc_nobom(s, codec or 'ascii')


def unit_size(codec):
    """Code-unit size for fixed-width codecs (aligned searching)."""
    return len(nl('unix', codec))


def find_aligned(data, needle, unit, start=0, origin=None):
    """First occurrence of needle at or after `start` whose offset from
    `origin` (default: start) is a multiple of `unit`. Returns an absolute
    index (no slicing: linear time on large inputs)."""
    if origin is None:
        origin = start
    i = data.find(needle, start)
    while i != -1 and unit > 1 and (i - origin) % unit:
        i = data.find(needle, i + 1)
    return i


def detect_kind_text(text):
    i = text.find('\n')
    if i > 0 and text[i - 1] == '\r':
        return 'dos'
    return 'unix'


def detect_kind_bytes(data, codec, offset=0):
    """First-line detection at byte level; `offset` = length of a BOM that
    precedes aligned code units."""
    u = nl('unix', codec)
    d = nl('dos', codec)
    unit = len(u)
    body = data[offset:]
    i = find_aligned(body, u, unit)
    if i != -1 and body[:i + len(u)].endswith(d) and (len(d) <= i + len(u)):
        return 'dos'
    return 'unix'


def split_keep(data, newline, unit=1, offset=0):
    """Naive left-to-right, non-overlapping, aligned scanner."""
    out = []
    pos = 0
    start = 0
    n = len(newline)
    while True:
        i = data.find(newline, pos)
        if i == -1:
            break
        if unit > 1 and (i - offset) % unit:
            pos = i + 1
            continue
        out.append(data[start:i + n])
        start = pos = i + n
    if start < len(data):
        out.append(data[start:])
    return out


def split_indented(body, nlb, unit, indent, sig=b'', exact=False):
    """Split an (optionally indented) content body into lines the way a
    strict reader must: at each line start skip up to `indent` ASCII spaces
    (exactly `indent` if exact), skip the codec signature on the first line,
    then scan code-unit-aligned for the newline.
    Returns (raw_lines, stripped_lines, terminated) or None if exact and a
    line lacks its indentation."""
    raw = []
    stripped = []
    pos = 0
    first = True
    terminated = True
    while pos < len(body):
        n = 0
        while n < indent and body[pos + n:pos + n + 1] == b' ':
            n += 1
        if exact and n != indent:
            return None
        start = pos + n
        off = start
        if first and sig and body.startswith(sig, start):
            off += len(sig)
        i = find_aligned(body, nlb, unit, off)
        if i < 0:
            raw.append(body[pos:])
            stripped.append(body[start:])
            terminated = False
            break
        end = i + len(nlb)
        raw.append(body[pos:end])
        stripped.append(body[start:end])
        pos = end
        first = False
    return raw, stripped, terminated


# ------------------------------------------------------------------- JSON

def _json_str(s):
    out = ['"']
    for ch in s:
        o = ord(ch)
        if ch == '"':
            out.append('\\"')
        elif ch == '\\':
            out.append('\\\\')
        elif ch == '\n':
            out.append('\\n')
        elif ch == '\r':
            out.append('\\r')
        elif ch == '\t':
            out.append('\\t')
        elif ch == '\b':
            out.append('\\b')
        elif ch == '\f':
            out.append('\\f')
        elif o < 0x20:
            out.append('\\u%04x' % o)
        elif o < 0x7f:
            out.append(ch)
        elif o < 0x10000:
            out.append('\\u%04x' % o)
        else:
            o -= 0x10000
            out.append('\\u%04x\\u%04x' % (0xd800 | (o >> 10),
                                           0xdc00 | (o & 0x3ff)))
    out.append('"')
    return ''.join(out)


def json_pretty(obj, level=0):
    """Pretty-printed JSON: sorted keys, 4-space indent, ", "-less item
    separators at line ends, ": " between key and value, ASCII only."""
    ind = '    ' * (level + 1)
    end = '    ' * level
    if obj is None:
        return 'null'
    if obj is True:
        return 'true'
    if obj is False:
        return 'false'
    if isinstance(obj, int):
        return str(obj)
    if isinstance(obj, float):
        return repr(obj)
    if isinstance(obj, str):
        return _json_str(obj)
    if isinstance(obj, (list, tuple)):
        if not obj:
            return '[]'
        return '[\n' + ',\n'.join(ind + json_pretty(v, level + 1)
                                  for v in obj) + '\n' + end + ']'
    if isinstance(obj, dict):
        if not obj:
            return '{}'
        items = sorted(obj.items(), key=lambda kv: kv[0])
        return '{\n' + ',\n'.join(
            ind + _json_str(k) + ': ' + json_pretty(v, level + 1)
            for k, v in items) + '\n' + end + '}'
    raise TypeError(type(obj))


# ------------------------------------------------------------- serializer

class Reject(Exception):
    pass


def header(sid, options):
    opts = ', '.join('%s=%s' % (k, options[k]) for k in sorted(options)
                     if options[k] is not None)
    return ('#%s:%s\n' % (sid, (' ' + opts) if opts else '')).encode('ascii')


def conv(v):
    """Option value as the reader must report it."""
    if isinstance(v, int):
        return v
    if re.fullmatch(r'-?[0-9]+', v):
        return int(v)
    return v


LEVEL_OF = {'diffx': 0, 'change': 1, 'file': 2}


def serialize(calls, main_encoding='utf-8', version='1.0'):
    """calls: list of lists
        ['change', enc] ['file', enc]
        ['preamble', text, enc, indent, line_endings, mimetype]
        ['meta', obj, enc]
        ['diff', bytes, type, enc, line_endings]
    Returns (bytes, records). Raises Reject if the order is illegal."""
    out = []
    recs = []
    line = 0
    prev = None
    scope = [None, None, None]     # declared encodings: main, change, file
    depth = 0                      # index of innermost open container

    def emit_header(sid, options, extra):
        nonlocal line, prev
        if sid not in NEXT[prev]:
            raise Reject('%s may not follow %s' % (sid, prev))
        out.append(header(sid, options))
        rec = {'level': len(sid) - len(sid.lstrip('.')), 'line': line,
               'options': {k: conv(v) for k, v in options.items()
                           if v is not None},
               'section': sid, 'type': sid.lstrip('.')}
        rec.update(extra)
        recs.append(rec)
        line += 1
        prev = sid
        return rec

    scope[0] = main_encoding
    emit_header('diffx', {'encoding': main_encoding, 'version': version}, {})
    for c in calls:
        kind = c[0]
        if kind in ('change', 'file'):
            lvl = LEVEL_OF[kind]
            sid = '.' * lvl + kind
            if sid not in NEXT[prev]:
                raise Reject('%s may not follow %s' % (sid, prev))
            for i in range(lvl, 3):
                scope[i] = None
            scope[lvl] = c[1]
            depth = lvl
            emit_header(sid, {'encoding': c[1]}, {})
            continue
        sid = '.' * (depth + 1) + kind
        if sid not in NEXT[prev]:
            raise Reject('%s may not follow %s' % (sid, prev))
        inherited = None
        for i in range(depth, -1, -1):
            if scope[i]:
                inherited = scope[i]
                break
        if kind == 'preamble':
            _, text, enc, indent, le, mimetype = c
            eff = enc or inherited
            k = le or detect_kind_text(text)
            nlt = {'unix': '\n', 'dos': '\r\n'}[k]
            if not text.endswith(nlt):
                text = text + nlt
            sig = signature(eff)
            body = enc_nobom(text, eff)
            nlb = nl(k, eff)
            if indent:
                # BOM (if any) belongs to the first line; spaces go in front
                lines = split_keep(body, nlb, len(nl('unix', eff)))
                lines[0] = sig + lines[0]
                data = b''.join(b' ' * indent + ln for ln in lines)
                nlines = len(lines)
            else:
                data = sig + body
                nlines = len(split_keep(body, nlb, len(nl('unix', eff))))
            emit_header(sid, {'encoding': enc, 'indent': indent,
                              'length': len(data), 'line_endings': k,
                              'mimetype': mimetype}, {'text': text})
            out.append(data)
            line += nlines
        elif kind == 'meta':
            _, obj, enc = c
            eff = enc or inherited
            text = json_pretty(obj)
            if not text.endswith('\n'):
                text += '\n'
            data = text.encode(eff)
            emit_header(sid, {'encoding': enc, 'format': 'json',
                              'length': len(data)},
                        {'metadata': json.loads(json.dumps(obj))})
            out.append(data)
            line += text.count('\n')
        elif kind == 'diff':
            _, data, dtype, enc, le = c
            k = le or detect_kind_bytes(data, enc or 'ascii',
                                        _bom_len(data, enc))
            nlb = nl(k, enc or 'ascii')
            if not data.endswith(nlb):
                data = data + nlb
            emit_header(sid, {'encoding': enc, 'length': len(data),
                              'line_endings': k, 'type': dtype},
                        {'diff': data})
            out.append(data)
            line += len(split_keep(data, nlb, unit_size(enc or 'ascii'),
                                   _bom_len(data, enc)))
        else:
            raise ValueError(kind)
    return b''.join(out), recs


def _bom_len(data, codec):
    if not codec:
        return 0
    sig = signature(codec)
    return len(sig) if sig and data.startswith(sig) else 0


# ------------------------------------------------------------------ parser

HEADER_RE = re.compile(
    rb'#(?P<level>\.{0,3})(?P<name>[a-z]+):'
    rb'(?: (?P<options>[A-Za-z][A-Za-z0-9_-]*=[A-Za-z0-9/._-]+'
    rb'(?:, [A-Za-z][A-Za-z0-9_-]*=[A-Za-z0-9/._-]+)*))?')
INT_RE = re.compile(r'-?[0-9]+')


class ParseError(Exception):
    def __init__(self, why, lo, hi=None):
        Exception.__init__(self, why)
        self.why = why
        self.lo = lo
        self.hi = lo if hi is None else hi


def parse_header_line(h):
    """h: header line without terminator. Returns (sid, options) or None."""
    m = HEADER_RE.fullmatch(h)
    if not m:
        return None
    sid = (m.group('level') + m.group('name')).decode('ascii')
    options = {}
    if m.group('options'):
        for pair in m.group('options').split(b', '):
            k, v = pair.split(b'=', 1)
            v = v.decode('ascii')
            options[k.decode('ascii')] = int(v) if INT_RE.fullmatch(v) else v
    return sid, options


def parse(data):
    """Strict reading. Returns (records, error) with error None or
    ParseError(lo..hi = logical line range designating the offender)."""
    recs = []
    pos = 0
    line = 0
    fnl = None
    prev = None
    scope = [None, None, None]
    depth = 0
    try:
        while True:
            while True:
                j = data.find(b'\n', pos)
                if j < 0:
                    return recs, None
                raw = data[pos:j + 1]
                pos = j + 1
                if raw.strip():
                    break
            if fnl is None:
                fnl = b'\r\n' if raw.endswith(b'\r\n') else b'\n'
            if not raw.endswith(fnl):
                raise ParseError('header newline style', line)
            ph = parse_header_line(raw[:-len(fnl)])
            if ph is None:
                raise ParseError('bad header', line)
            sid, options = ph
            if sid not in NEXT[prev]:
                raise ParseError('order', line)
            hdr_line = line
            rec = {'level': len(sid) - len(sid.lstrip('.')), 'line': line,
                   'options': options, 'section': sid,
                   'type': sid.lstrip('.')}
            line += 1
            if sid in CONTAINER_IDS:
                lvl = rec['level']
                if sid == 'diffx':
                    if options.get('version') != '1.0':
                        raise ParseError('version', hdr_line)
                for i in range(lvl, 3):
                    scope[i] = None
                scope[lvl] = options.get('encoding')
                depth = lvl
            else:
                length = options.get('length')
                if not isinstance(length, int) or isinstance(length, bool) \
                        or length < 0:
                    raise ParseError('length', hdr_line)
                body = data[pos:pos + length]
                if len(body) < length:
                    raise ParseError('short', hdr_line, hdr_line + 1 +
                                     body.count(b'\n'))
                kind = rec['type']
                own = options.get('encoding')
                if kind == 'diff':
                    eff = own
                else:
                    eff = own
                    if eff is None:
                        for i in range(depth, -1, -1):
                            if scope[i] is not None:
                                eff = scope[i]
                                break
                if eff is not None:
                    eff = str(eff)
                    try:
                        codecs.lookup(eff)
                        nl('unix', eff)
                    except Exception:
                        raise ParseError('codec', hdr_line, hdr_line + 1)
                le = options.get('line_endings')
                sig = signature(eff) if eff else b''
                indent = 0
                if kind == 'preamble':
                    indent = options.get('indent', 0)
                    if not isinstance(indent, int) or indent < 0:
                        raise ParseError('indent', hdr_line, hdr_line + 1)
                unit = unit_size(eff)
                if le is not None:
                    if le not in ('unix', 'dos'):
                        raise ParseError('line_endings', hdr_line,
                                         hdr_line + 1)
                    k = le
                else:
                    # first-line detection: find the first (aligned) LF of
                    # the first line and look at what precedes it
                    fl = split_indented(body, nl('unix', eff), unit, indent,
                                        sig)
                    k = 'unix'
                    if fl[0] and fl[1][0].endswith(nl('dos', eff)):
                        k = 'dos'
                nlb = nl(k, eff)
                raw, lines, terminated = split_indented(body, nlb, unit,
                                                        indent, sig)
                hi = hdr_line + max(1, len(lines))
                if kind == 'meta' and options.get('format', 'json') != 'json':
                    raise ParseError('format', hdr_line, hi)
                if not lines or not terminated:
                    raise ParseError('newline', hdr_line, hi)
                if kind == 'preamble':
                    body2 = b''.join(lines)
                    if eff is None:
                        rec['text'] = body2
                    else:
                        try:
                            rec['text'] = body2.decode(eff)
                        except UnicodeDecodeError:
                            raise ParseError('decode', hdr_line, hi)
                elif kind == 'meta':
                    try:
                        text = body if eff is None else body.decode(eff)
                        rec['metadata'] = json.loads(text)
                    except (UnicodeDecodeError, ValueError):
                        raise ParseError('json', hdr_line, hi)
                else:
                    rec['diff'] = body
                pos += length
                line += len(lines)
            prev = sid
            recs.append(rec)
    except ParseError as e:
        return recs, e


# --------------------------------------------------------- payload helpers

def to_jsonable(x):
    if isinstance(x, bytes):
        return {'__b64__': base64.b64encode(x).decode('ascii')}
    if isinstance(x, tuple):
        return {'__tuple__': [to_jsonable(i) for i in x]}
    if isinstance(x, list):
        return [to_jsonable(i) for i in x]
    if isinstance(x, dict):
        return {'__dict__': [[to_jsonable(k), to_jsonable(v)]
                             for k, v in x.items()]}
    if isinstance(x, (set, frozenset)):
        return {'__set__': sorted(to_jsonable(i) for i in x)}
    return x


def from_jsonable(x):
    if isinstance(x, list):
        return [from_jsonable(i) for i in x]
    if isinstance(x, dict):
        if '__b64__' in x:
            return base64.b64decode(x['__b64__'])
        if '__dict__' in x:
            return {from_jsonable(k) if not isinstance(k, list) else
                    tuple(from_jsonable(k)): from_jsonable(v)
                    for k, v in x['__dict__']}
        if '__set__' in x:
            return set(from_jsonable(i) for i in x['__set__'])
        if '__tuple__' in x:
            return tuple(from_jsonable(i) for i in x['__tuple__'])
        return {k: from_jsonable(v) for k, v in x.items()}
    return x


# ------------------------------------------------------------ model state

def track(calls, main_encoding='utf-8'):
    """Declarative model state after a legal call history:
    (prev section id, declared-encoding scope (main, change, file), depth).
    Raises Reject for an illegal order."""
    prev = 'diffx'
    scope = [main_encoding, None, None]
    depth = 0
    for c in calls:
        kind = c[0]
        if kind in ('change', 'file'):
            lvl = LEVEL_OF[kind]
            sid = '.' * lvl + kind
            if sid not in NEXT[prev]:
                raise Reject(sid)
            for i in range(lvl, 3):
                scope[i] = None
            scope[lvl] = c[1]
            depth = lvl
        else:
            sid = '.' * (depth + 1) + kind
            if sid not in NEXT[prev]:
                raise Reject(sid)
        prev = sid
    return prev, tuple(scope), depth


def inherited_encoding(scope, depth):
    for i in range(depth, -1, -1):
        if scope[i]:
            return scope[i]
    return None


def legal_kinds(prev, depth):
    """Which writer calls the hierarchy allows after `prev`."""
    out = []
    for kind in ('change', 'file'):
        if '.' * LEVEL_OF[kind] + kind in NEXT[prev]:
            out.append(kind)
    for kind in ('preamble', 'meta', 'diff'):
        if '.' * (depth + 1) + kind in NEXT[prev]:
            out.append(kind)
    return out
