"""Writer -> reader exploration shared by C01, C02 and C04.

1. scope_graph(root, ...)   explicit-state BFS over container/content events
   where a state is the frozen implementation state of a real DiffXWriter
   and of a real DiffXReader suspended after the last record (DESIGN 2.1).
2. oracles on one execution (calls, root): round trip (C01), canonical bytes
   + independent validator (C02), encoding scope (C04).
3. whole-file deviation-bounded pass (DESIGN 2.2).
"""
import itertools
import json
import re

from pydiffx.errors import BaseDiffXError, DiffXParseError

from mc import spec
from mc.alphabets import (BOUNDARY_SIZES_Q, TEXTS, METAS, DIFFS, ENCODINGS, DIFF_ENCODINGS,
                          INDENTS, LINE_ENDINGS, MIMETYPES, DIFF_TYPES,
                          SCOPE_ENCODINGS, encodable, misaligned)
from mc.explore import bfs, freeze
from mc.observe import (run_writer, read_all, freeze_writer, freeze_reader,
                        rec_content, site_of, typed_eq,
                        module_globals_snapshot, fresh, apply_call,
                        rec_core)

PROBE_TEXT = 'é\n'
PROBE_META = {'k': 'é'}


# --------------------------------------------------------------- execution

class Exec(object):
    """One execution of the real writer, then the real reader, on `calls`."""

    def __init__(self, calls, root):
        self.calls = calls
        self.root = root
        self.werr = None
        self.data = None
        self.offs = None
        self.writer = None
        try:
            self.writer, s, self.offs = run_writer(calls, root)
            self.data = s.getvalue()
        except BaseException as e:
            if isinstance(e, (KeyboardInterrupt, SystemExit)):
                raise
            self.werr = e
        self.recs = self.rerr = self.reader = self.gen = None

    def read(self, data=None, suspended=False):
        d = self.data if data is None else data
        n = (len(self.calls) + 1) if suspended else None
        self.recs, self.rerr, self.reader, self.gen = read_all(d, limit=n)
        return self


def call_bytes(ex, i):
    """(header line, content bytes) the writer appended for call i
    (i = -1: constructor)."""
    lo = 0 if i < 0 else ex.offs[i]
    hi = ex.offs[i + 1]
    chunk = ex.data[lo:hi]
    j = chunk.find(b'\n')
    return chunk[:j + 1], chunk[j + 1:]


def expected_record(call, root, scope, depth, content_len):
    """By-construction expectation for the record of one accepted call."""
    kind = call[0]
    if kind in ('change', 'file'):
        lvl = spec.LEVEL_OF[kind]
        return {'section': '.' * lvl + kind, 'level': lvl, 'type': kind,
                'options': ({'encoding': call[1]} if call[1] else {})}
    lvl = depth + 1
    rec = {'section': '.' * lvl + kind, 'level': lvl, 'type': kind}
    if kind == 'preamble':
        _, text, enc, indent, le, mimetype = call
        k = le or spec.detect_kind_text(text)
        nlt = {'unix': '\n', 'dos': '\r\n'}[k]
        if not text.endswith(nlt):
            text += nlt
        o = {'indent': indent, 'length': content_len, 'line_endings': k}
        if enc:
            o['encoding'] = enc
        if mimetype:
            o['mimetype'] = mimetype
        rec['options'] = o
        rec['text'] = text
    elif kind == 'meta':
        _, obj, enc = call
        o = {'format': 'json', 'length': content_len}
        if enc:
            o['encoding'] = enc
        rec['options'] = o
        rec['metadata'] = json.loads(json.dumps(obj))
    else:
        _, data, dtype, enc, le = call
        k = le or spec.detect_kind_bytes(data, enc or 'ascii',
                                         spec._bom_len(data, enc))
        nlb = spec.nl(k, enc or 'ascii')
        if not data.endswith(nlb):
            data += nlb
        o = {'length': content_len, 'line_endings': k}
        if enc:
            o['encoding'] = enc
        if dtype:
            o['type'] = dtype
        rec['options'] = o
        rec['diff'] = data
    return rec


def check_roundtrip(ex, only_last=False):
    """C01 oracle. Returns list of (key, msg)."""
    v = []
    if ex.werr is not None:
        return [('writer-raised:%s:%s' % (type(ex.werr).__name__,
                                          site_of(ex.werr)),
                 'writer raised %r on a well-ordered, valid call sequence'
                 % (ex.werr,))]
    if ex.recs is None:
        ex.read()
    if ex.rerr is not None:
        return [('reader-raised:%s:%s' % (type(ex.rerr).__name__,
                                          site_of(ex.rerr)),
                 'reader raised %r on writer output after %d records'
                 % (ex.rerr, len(ex.recs)))]
    if len(ex.recs) != len(ex.calls) + 1:
        return [('record-count', '%d records for %d sections'
                 % (len(ex.recs), len(ex.calls) + 1))]
    main = ex.recs[0]
    exp_main = {'section': 'diffx', 'level': 0, 'type': 'diffx',
                'options': {'encoding': ex.root, 'version': '1.0'}}
    _cmp(v, 'diffx', main, exp_main)
    prev, scope, depth = 'diffx', [ex.root, None, None], 0
    for i, c in enumerate(ex.calls):
        hdr, content = call_bytes(ex, i)
        exp = expected_record(c, ex.root, scope, depth, len(content))
        if not only_last or i == len(ex.calls) - 1:
            _cmp(v, c[0], ex.recs[i + 1], exp)
        if c[0] in ('change', 'file'):
            lvl = spec.LEVEL_OF[c[0]]
            for j in range(lvl, 3):
                scope[j] = None
            scope[lvl] = c[1]
            depth = lvl
    if not v and _has_nested_meta(ex.calls):
        v.extend(_reread_after_edits(ex))
    return v


def _has_nested_meta(calls):
    for c in calls:
        if c[0] == 'meta' and isinstance(c[1], dict) and any(
                isinstance(x, (dict, list)) and x for x in c[1].values()):
            return True
    return False


def _vandalise_deep(o, depth=0):
    """Edit every nested container in place."""
    if isinstance(o, dict):
        for k in list(o):
            _vandalise_deep(o[k], depth + 1)
        if depth:
            o['edited-by-consumer'] = depth
    elif isinstance(o, list):
        for x in o:
            _vandalise_deep(x, depth + 1)
        o.append('edited-by-consumer')


def _reread_after_edits(ex):
    """What a consumer does to records it was given (here: editing every
    nested value of every metadata in place) must not show up when the
    same bytes are read again, by this or by another reader."""
    import copy
    want = [copy.deepcopy(r.get('metadata')) for r in ex.recs]
    for r in ex.recs:
        if isinstance(r.get('metadata'), dict):
            _vandalise_deep(r['metadata'])
    recs2, rerr2, _, _ = read_all(ex.data)
    if rerr2 is not None:
        return [('reread-raised:%s:%s' % (type(rerr2).__name__,
                                          site_of(rerr2)), repr(rerr2))]
    got = [r.get('metadata') for r in recs2]
    if not typed_eq(got, want):
        i = next((k for k, (a, b) in enumerate(zip(got, want))
                  if not typed_eq(a, b)), 0)
        return [('reread-sees-consumer-edits:metadata',
                 'after the consumer edited nested metadata values of the '
                 'first read in place, a second read of the same bytes '
                 'returned %r for section %d, expected %r'
                 % (_short(got[i]), i, _short(want[i])))]
    return []


def _cmp(v, kind, rec, exp):
    for f in ('section', 'level', 'type'):
        if rec.get(f) != exp[f] or type(rec.get(f)) is not type(exp[f]):
            v.append(('rt-%s:%s' % (f, kind), 'record %s=%r expected %r'
                      % (f, rec.get(f), exp[f])))
    if not typed_eq(rec.get('options'), exp['options']):
        bad = sorted(k for k in set(rec.get('options') or {}) |
                     set(exp['options'])
                     if not typed_eq((rec.get('options') or {}).get(k, '<absent>'),
                                     exp['options'].get(k, '<absent>')))
        v.append(('rt-options:%s:%s' % (kind, ','.join(bad)),
                  'options %r expected %r' % (rec.get('options'),
                                              exp['options'])))
    for f in ('text', 'metadata', 'diff'):
        if f in exp:
            if f not in rec:
                v.append(('rt-content-missing:%s' % kind, 'no %s' % f))
            elif not typed_eq(rec[f], exp[f]):
                v.append(('rt-content:%s' % kind, '%s=%r expected %r'
                          % (f, _short(rec[f]), _short(exp[f]))))
        elif f in rec:
            v.append(('rt-content-extra:%s' % kind, 'unexpected %s' % f))


def _short(x):
    r = repr(x)
    return r if len(r) < 300 else r[:300] + '...'


# ------------------------------------------------------- C02: canonical bytes

OPT_RE = re.compile(rb'[A-Za-z][A-Za-z0-9_-]*=[A-Za-z0-9/._-]+')


def validate_bytes(data):
    """Independent walk over produced bytes (C02 oracle 2). Returns list of
    (key, msg). Uses only the bytes themselves."""
    v = []
    pos = 0
    prev = None
    scope = [None, None, None]
    depth = 0
    while pos < len(data):
        j = data.find(b'\n', pos)
        if j < 0:
            v.append(('val-unterminated-header', repr(data[pos:pos + 60])))
            break
        h = data[pos:j]
        pos = j + 1
        try:
            h.decode('ascii')
        except UnicodeDecodeError:
            v.append(('val-header-not-ascii', repr(h)))
            break
        ph = spec.parse_header_line(h)
        if ph is None:
            v.append(('val-header-grammar', repr(h)))
            break
        sid, options = ph
        m = re.fullmatch(rb'#[.a-z]+:(?: (.*))?', h)
        if m.group(1):
            keys = [p.split(b'=')[0] for p in m.group(1).split(b', ')]
            if keys != sorted(keys) or len(set(keys)) != len(keys):
                v.append(('val-options-order', repr(h)))
        if sid not in spec.LEGAL_IDS:
            v.append(('val-illegal-id', sid))
            break
        if sid not in spec.NEXT[prev]:
            v.append(('val-order', '%s after %s' % (sid, prev)))
        prev = sid
        if sid in spec.CONTAINER_IDS:
            lvl = len(sid) - len(sid.lstrip('.'))
            for i in range(lvl, 3):
                scope[i] = None
            scope[lvl] = options.get('encoding')
            depth = lvl
            if sid == 'diffx' and options.get('version') != '1.0':
                v.append(('val-version', repr(h)))
            continue
        length = options.get('length')
        if not isinstance(length, int) or length < 0:
            v.append(('val-length-missing', repr(h)))
            break
        body = data[pos:pos + length]
        if len(body) != length:
            v.append(('val-length-overrun', '%r: %d bytes left' %
                      (h, len(body))))
            break
        pos += length
        if pos < len(data) and not data.startswith(b'#', pos):
            v.append(('val-length-short', '%r: next byte is not a header'
                      % h))
            break
        kind = sid.lstrip('.')
        own = options.get('encoding')
        eff = own if kind == 'diff' else (own or spec.inherited_encoding(
            scope, depth))
        le = options.get('line_endings')
        if kind != 'meta' and le not in ('unix', 'dos'):
            v.append(('val-line-endings-option:%s' % kind, repr(h)))
            le = 'unix'
        if kind == 'meta':
            le = 'unix'
            if options.get('format') != 'json':
                v.append(('val-format', repr(h)))
        try:
            nlb = spec.nl(le, eff or 'ascii')
        except LookupError:
            v.append(('val-codec', repr(h)))
            continue
        if not body.endswith(nlb):
            v.append(('val-final-newline:%s' % kind, '%r: content ends %r, '
                      'newline is %r' % (h, body[-8:], nlb)))
        if kind == 'preamble':
            indent = options.get('indent', 0)
            unit = spec.unit_size(eff)
            sig = spec.signature(eff)
            lines = _indent_lines(body, nlb, unit, indent, sig)
            if lines is None:
                v.append(('val-indent', '%r: a line does not start with %d '
                          'spaces: %r' % (h, indent, body[:40])))
            else:
                raw = b''.join(lines)
                try:
                    raw.decode(eff)
                except UnicodeDecodeError:
                    v.append(('val-preamble-decode', repr(h)))
        if kind == 'meta':
            try:
                text = body.decode(eff)
                obj = json.loads(text)
                want = spec.json_pretty(obj) + '\n'
                if text != want:
                    v.append(('val-json-not-canonical', '%r != %r'
                              % (_short(text), _short(want))))
            except (UnicodeDecodeError, ValueError) as e:
                v.append(('val-json', '%r: %r' % (h, e)))
    return v


def _indent_lines(body, nlb, unit, indent, sig):
    r = spec.split_indented(body, nlb, unit, indent, sig, exact=True)
    if r is None or not r[2]:
        return None
    return r[1]


def check_bytes(ex):
    """C02 oracle. Returns list of (key, msg)."""
    if ex.werr is not None:
        return [('writer-raised:%s:%s' % (type(ex.werr).__name__,
                                          site_of(ex.werr)),
                 'writer raised %r on a well-ordered, valid call sequence'
                 % (ex.werr,))]
    v = []
    want, _ = spec.serialize(ex.calls, ex.root)
    if ex.data != want:
        # locate the first differing section for a stable key
        kind = 'diffx'
        pos = 0
        woffs = _ref_offsets(ex.calls, ex.root)
        for i in range(len(ex.calls) + 1):
            lo = 0 if i == 0 else ex.offs[i - 1]
            hi = ex.offs[i]
            wlo = 0 if i == 0 else woffs[i - 1]
            whi = woffs[i]
            if ex.data[lo:hi] != want[wlo:whi]:
                kind = 'diffx' if i == 0 else ex.calls[i - 1][0]
                hdr_same = (ex.data[lo:hi].split(b'\n', 1)[0] ==
                            want[wlo:whi].split(b'\n', 1)[0])
                v.append(('bytes-differ:%s:%s' % (
                    kind, 'content' if hdr_same else 'header'),
                    'call %d %s: wrote %r, canonical %r'
                    % (i, kind, _short(ex.data[lo:hi]),
                       _short(want[wlo:whi]))))
                break
        else:
            v.append(('bytes-differ:?', 'streams differ'))
    v.extend(validate_bytes(ex.data))
    return v


def _ref_offsets(calls, root):
    offs = []
    for i in range(len(calls) + 1):
        offs.append(len(spec.serialize(calls[:i], root)[0]))
    return offs


# ------------------------------------------------------------ C04: scope

def scope_events(encs=SCOPE_ENCODINGS):
    ev = []
    for e in encs:
        ev.append(['change', e])
    for e in encs:
        ev.append(['file', e])
    for e in encs:
        ev.append(['preamble', PROBE_TEXT, e, 4, None, None])
    for e in encs:
        ev.append(['meta', PROBE_META, e])
    # explicit line endings with an inherited encoding (what the object
    # model passes when it re-serialises a parsed file)
    ev.append(['preamble', PROBE_TEXT, None, 4, 'unix', None])
    ev.append(['preamble', PROBE_TEXT.replace('\n', '\r\n'), None, 4, 'dos',
               None])
    ev.append(['diff', b'a\n', None, None, None])
    ev.append(['diff', 'a\n'.encode('utf-16'), None, None, None])
    ev.append(['diff', 'a\r\n'.encode('utf-16'), None, 'utf-16', None])
    # diffs that say what they are (type / line endings) but not in which
    # encoding: still plain bytes, whatever the containers declare
    ev.append(['diff', b'a', 'text', None, None])
    ev.append(['diff', b'a\n', 'text', None, 'unix'])
    ev.append(['diff', b'a\r\nb', 'binary', None, 'dos'])
    return ev


def raw_json_variant(calls, root):
    """File for the same calls where metadata is written as RAW non-ASCII
    JSON in the effective encoding (a foreign producer), so that decoding
    with a wrong ancestor encoding is visible for every codec pair."""
    out = [spec.header('diffx', {'encoding': root, 'version': '1.0'})]
    scope, depth = [root, None, None], 0
    offs = _ref_offsets(calls, root)
    full = spec.serialize(calls, root)[0]
    for i, c in enumerate(calls):
        kind = c[0]
        if kind in ('change', 'file'):
            lvl = spec.LEVEL_OF[kind]
            for j in range(lvl, 3):
                scope[j] = None
            scope[lvl] = c[1]
            depth = lvl
        if kind == 'meta' and isinstance(c[1].get('k'), str):
            eff = c[2] or spec.inherited_encoding(scope, depth)
            body = ('{"k": "%s"}\n' % c[1]['k']).encode(eff)
            out.append(spec.header('.' * (depth + 1) + 'meta',
                                   {'encoding': c[2], 'format': 'json',
                                    'length': len(body)}))
            out.append(body)
        else:
            out.append(full[offs[i]:offs[i + 1]])
    return b''.join(out)


def wrong_ancestor_variant(calls, root):
    """The file for calls[:-1] followed by the LAST section (a preamble or
    metadata without an encoding of its own) encoded with the encoding of a
    FARTHER ancestor, where those bytes are not valid text in the nearest
    one. A reader that uses the nearest ancestor must reject it; one that
    falls back to outer ancestors accepts it. Returns (bytes, nearest,
    outer) or None when the history offers no such pair."""
    if not calls or calls[-1][0] not in ('preamble', 'meta') or \
            calls[-1][2] is not None:
        return None
    scope, depth = [root, None, None], 0
    for c in calls[:-1]:
        if c[0] in ('change', 'file'):
            lvl = spec.LEVEL_OF[c[0]]
            for j in range(lvl, 3):
                scope[j] = None
            scope[lvl] = c[1]
            depth = lvl
    declared = [e for e in reversed(scope[:depth + 1]) if e]
    if len(declared) < 2:
        return None
    nearest = declared[0]
    head = spec.serialize(calls[:-1], root)[0]
    text = 'caf\u00e9 \u20ac\n'
    for outer in declared[1:]:
        if outer == nearest:
            continue
        try:
            body = spec.enc_nobom(text, outer) if calls[-1][0] == 'preamble' \
                else spec.enc_nobom('{"k": "caf\u00e9"}\n', outer)
        except Exception:
            try:
                body = spec.enc_nobom('caf\u00e9\n', outer) \
                    if calls[-1][0] == 'preamble' else \
                    spec.enc_nobom('{"k": "caf\u00e9"}\n', outer)
            except Exception:
                continue
        try:
            body.decode(nearest)
            continue            # valid in the nearest too: not a test
        except Exception:
            pass
        sid = '.' * (depth + 1) + calls[-1][0]
        opts = {'length': len(body)}
        if calls[-1][0] == 'meta':
            opts['format'] = 'json'
        return head + spec.header(sid, opts) + body, nearest, outer
    return None


def check_scope(ex, ref_bytes, ref_recs):
    """C04 oracles on one execution: writer alone (bytes vs declarative
    rule), reader alone (reference bytes), agreement (writer -> reader)."""
    v = []
    last = ex.calls[-1][0] if ex.calls else 'diffx'
    # writer alone
    if ex.werr is not None:
        v.append(('writer-raised:%s:%s' % (type(ex.werr).__name__,
                                           site_of(ex.werr)), repr(ex.werr)))
    elif ex.data != ref_bytes:
        v.append(('scope-writer:%s' % last,
                  'writer bytes differ from nearest-ancestor rule: %r vs %r'
                  % (_short(ex.data[-80:]), _short(ref_bytes[-80:]))))
    # reader alone, on reference bytes
    recs, rerr, _, _ = read_all(ref_bytes)
    v.extend(_cmp_recs('scope-reader', last, recs, rerr, ref_recs))
    # reader alone, consumer edits every yielded record in place
    from mc.observe import read_all_hostile
    recs3, rerr3 = read_all_hostile(ref_bytes)
    v.extend(_cmp_recs('scope-reader-consumer-edits', last, recs3, rerr3,
                       ref_recs))
    # reader alone: content that is only valid in a FARTHER ancestor's
    # encoding is rejected
    wa = wrong_ancestor_variant(ex.calls, ex.root)
    if wa is not None:
        data_w, nearest, outer = wa
        recs4, rerr4, _, _ = read_all(data_w)
        if rerr4 is None:
            v.append(('scope-reader-used-farther-ancestor:%s' % last,
                      'a %s without own encoding whose bytes are invalid in '
                      'the nearest ancestor encoding %r but valid in the '
                      'outer %r was accepted: %r'
                      % (last, nearest, outer,
                         _short(rec_content(recs4[-1])[1]))))
        elif not isinstance(rerr4, DiffXParseError):
            v.append(('scope-reader-raised:%s:%s'
                      % (type(rerr4).__name__, site_of(rerr4)), repr(rerr4)))
    # reader alone, raw-JSON foreign variant
    if any(c[0] == 'meta' for c in ex.calls):
        rb = raw_json_variant(ex.calls, ex.root)
        recs2, rerr2, _, _ = read_all(rb)
        exp2 = [dict(r) for r in ref_recs]
        v.extend(_cmp_recs('scope-reader-rawjson', last, recs2, rerr2, exp2,
                           content_only=True))
    # agreement
    if ex.werr is None:
        if ex.recs is None:
            ex.read()
        v.extend(_cmp_recs('scope-agree', last, ex.recs, ex.rerr, ref_recs))
    return v


def _cmp_recs(tag, last, recs, rerr, exp, content_only=False):
    v = []
    if rerr is not None:
        if isinstance(rerr, DiffXParseError):
            v.append(('%s-rejected:%s' % (tag, last),
                      'reader rejected a well-formed file: %s' % rerr))
        else:
            v.append(('%s-raised:%s:%s' % (tag, type(rerr).__name__,
                                           site_of(rerr)), repr(rerr)))
        return v
    if len(recs) != len(exp):
        v.append(('%s-count' % tag, '%d vs %d' % (len(recs), len(exp))))
        return v
    for i, (r, e) in enumerate(zip(recs, exp)):
        k, val = rec_content(r)
        ek, eval_ = rec_content(e)
        if k != ek or not typed_eq(val, eval_):
            v.append(('%s-content:%s' % (tag, e['section']),
                      'section %d %s: %r expected %r'
                      % (i, e['section'], _short(val), _short(eval_))))
            break
        if content_only:
            continue
        if r['section'] != e['section'] or r['level'] != e['level'] or \
                r['line'] != e['line'] or \
                not typed_eq(r['options'], e['options']):
            v.append(('%s-record:%s' % (tag, e['section']),
                      'section %d: %r expected %r' % (i, r, e)))
            break
    return v


def scope_graph(root, events, depth, state_cap=50000, on_exec=None):
    """BFS. Returns dict with seen (state key -> history), transitions,
    closed, model_map (model state -> set of impl keys)."""
    g0 = module_globals_snapshot()
    model_map = {}
    info = {'capped': False, 'globals_changed': False}

    def step(hist):
        calls = list(hist)
        ex = Exec(calls, root)
        if ex.werr is None:
            ex.read(suspended=True)
        if on_exec is not None:
            on_exec(ex)
        if ex.werr is not None or ex.rerr is not None:
            return None, ex
        if module_globals_snapshot() != g0:
            info['globals_changed'] = True
        key = (freeze_writer(ex.writer), freeze_reader(ex.reader, ex.gen))
        ms = spec.track(calls, root)
        model_map.setdefault(ms, set()).add(key)
        return key, ex

    def successors(hist, key):
        if len(seen_ref[0]) >= state_cap:
            info['capped'] = True
            return []
        prev, scope, d = spec.track(list(hist), root)
        kinds = spec.legal_kinds(prev, d)
        return [tuple_ev(e) for e in events if e[0] in kinds]

    seen_ref = [{}]
    # bfs() owns `seen`; expose it to successors() for the cap
    res = _bfs_with_seen(step, successors, depth, seen_ref)
    res['model_map'] = model_map
    res.update(info)
    return res


def tuple_ev(e):
    return _Ev(e)


class _Ev(list):
    """A call that can sit inside a tuple history (hashable by identity of
    content)."""
    def __hash__(self):
        return hash(repr(self))


def _bfs_with_seen(step, successors, depth, seen_ref):
    from collections import deque
    seen = seen_ref[0]
    frontier = deque()
    transitions = 0
    key, _ = step(())
    transitions += 1
    seen[key] = ()
    frontier.append(((), key))
    cut = 0
    maxd = 0
    while frontier:
        hist, key = frontier.popleft()
        maxd = max(maxd, len(hist))
        for ev in successors(hist, key):
            h2 = hist + (ev,)
            k2, _ = step(h2)
            transitions += 1
            if k2 is None or k2 in seen:
                continue
            seen[k2] = h2
            if len(h2) >= depth:
                cut += 1
                continue
            frontier.append((h2, k2))
    return {'seen': seen, 'transitions': transitions, 'closed': cut == 0,
            'frontier_cut': cut, 'max_depth': maxd}


# ------------------------------------------- C01/C02: per-state argument sweep

def preamble_domains():
    return [[t for n, t in TEXTS], ENCODINGS, INDENTS, LINE_ENDINGS,
            MIMETYPES]


def meta_domains():
    return [[m for n, m in METAS], ENCODINGS]


def diff_domains():
    return [[d for n, d in DIFFS], DIFF_TYPES, DIFF_ENCODINGS, LINE_ENDINGS]


def arg_tuples(kind, tier):
    """Every argument tuple for a content call: full product (thorough) or
    <= 2 deviations from the default tuple (quick)."""
    from mc.explore import deviations
    doms = {'preamble': preamble_domains, 'meta': meta_domains,
            'diff': diff_domains}[kind]()
    if tier == 'thorough':
        for t in itertools.product(*doms):
            yield [kind] + list(t)
    else:
        for vec, r in deviations(doms, 2):
            yield [kind] + vec


def in_domain(call, root, scope, depth, allow_misaligned=True):
    """C01/C02 domain: text encodable in the effective codec."""
    kind = call[0]
    if kind == 'preamble':
        eff = call[2] or spec.inherited_encoding(scope, depth)
        if not encodable(call[1], eff):
            return False
        # byte-level and text-level line splitting only differ where lines
        # are split at all: when the text is indented
        if not allow_misaligned and call[3] != 0 and \
                misaligned(call[1], eff):
            return False
    elif kind == 'meta':
        eff = call[2] or spec.inherited_encoding(scope, depth)
        if not encodable('x', eff):
            return False
    return True


# ----------------------------------------------------- whole-file structures

def structures(tier):
    """Call skeletons: main [preamble][meta], n changes each [preamble][meta]
    m files each meta [diff]."""
    P, M, D, C, F = 'preamble', 'meta', 'diff', 'change', 'file'
    s = [
        [C, F, M],
        [P, M, C, P, M, F, M, D],
        [M, C, M, F, M, D, F, M, C, P, F, M, D],
        [P, C, P, M, F, M, D, F, M, D, C, P, M, F, M, F, M, D],
        [C, F, M, D, C, F, M, D, F, M],
    ]
    if tier == 'thorough':
        s.append([P, M, C, P, M, F, M, D, F, M, D, F, M, C, M, F, M, D,
                  C, P, F, M, D, F, M, D])
    return s


def slots_for(skeleton):
    """[(call index, arg index, domain)] and the default call list."""
    slots = []
    calls = []
    for i, kind in enumerate(skeleton):
        if kind in ('change', 'file'):
            calls.append([kind, None])
            slots.append((i, 1, SCOPE_ENCODINGS))
        elif kind == 'preamble':
            calls.append(['preamble', 'a\n', None, 4, None, None])
            for j, dom in enumerate(preamble_domains()):
                d0 = calls[-1][j + 1]
                slots.append((i, j + 1, [d0] + [x for x in dom if x != d0]))
        elif kind == 'meta':
            calls.append(['meta', {'a': 'x'}, None])
            for j, dom in enumerate(meta_domains()):
                d0 = calls[-1][j + 1]
                slots.append((i, j + 1, [d0] + [x for x in dom if x != d0]))
        else:
            calls.append(['diff', b'a\n', None, None, None])
            for j, dom in enumerate(diff_domains()):
                d0 = calls[-1][j + 1]
                slots.append((i, j + 1, [d0] + [x for x in dom if x != d0]))
    return slots, calls


def file_domain_ok(calls, root, allow_misaligned=True):
    prev, scope, depth = 'diffx', [root, None, None], 0
    for c in calls:
        if c[0] in ('change', 'file'):
            lvl = spec.LEVEL_OF[c[0]]
            for j in range(lvl, 3):
                scope[j] = None
            scope[lvl] = c[1]
            depth = lvl
        elif not in_domain(c, root, scope, depth, allow_misaligned):
            return False
    return True


# ------------------------------------------------ shared C01/C02 plan + units

WR_ROOTS_Q = ['utf-8', 'utf-16']
WR_ROOTS_T = ['utf-8', 'utf-16', 'latin-1', 'utf-32']


def wr_plan(tier, combos_per_unit=400):
    """Units: ('state', root, history, kind) for every reachable canonical
    state x legal content call kind, and ('file', root, skeleton index,
    [slot-index combos]) for the whole-file deviation-bounded pass."""
    from mc.explore import Acc
    roots = WR_ROOTS_Q if tier == 'quick' else WR_ROOTS_T
    units = []
    info = {'graph_states': 0, 'graph_transitions': 0, 'graph_closed': True}
    for root in roots:
        g = scope_graph(root, scope_events(), 9, state_cap=400)
        info['graph_states'] += len(g['seen'])
        info['graph_transitions'] += g['transitions']
        info['graph_closed'] = bool(info['graph_closed'] and g['closed']
                                    and not g['capped'])
        for key, hist in sorted(g['seen'].items(),
                                key=lambda kv: (len(kv[1]), repr(kv[1]))):
            calls = [list(c) for c in hist]
            prev, scope, d = spec.track(calls, root)
            for kind in spec.legal_kinds(prev, d):
                if kind in ('preamble', 'meta', 'diff'):
                    units.append(('state', root, calls, kind))
    k = 2 if tier == 'quick' else 3
    for root in roots[:2] if tier == 'quick' else roots[:3]:
        for si, sk in enumerate(structures(tier)):
            slots, _ = slots_for(sk)
            combos = []
            for r in range(0, k + 1):
                combos.extend(itertools.combinations(range(len(slots)), r))
            if tier == 'thorough' and len(sk) > 20:
                # largest skeleton: k=2 only (k=3 is ~8M executions)
                combos = [c for c in combos if len(c) <= 2]
            for i in range(0, len(combos), combos_per_unit):
                units.append(('file', root, si, combos[i:i + combos_per_unit]))
    return units, info


def wr_run_unit(unit, tier, oracle, allow_misaligned, pid):
    """oracle: f(Exec) -> [(key, msg)]"""
    from mc.explore import Acc
    from mc.spec import to_jsonable
    acc = Acc()

    def run(calls, root, nt):
        ex = Exec(calls, root)
        viols = oracle(ex)
        acc.evals += 1
        acc.transitions += 1
        acc.validated += 1
        if nt:
            acc.nontrivial += 1
        for key, msg in viols:
            acc.violation(key, '%s\ncalls (main encoding %s): %r'
                          % (msg, root, _short(calls)),
                          {'kind': 'calls', 'root': root,
                           'calls': to_jsonable(calls)})
        acc.outcome('ok' if not viols else viols[0][0].split(':')[0])
        return ex

    if unit[0] == 'state':
        _, root, hist, kind = unit
        prev, scope, depth = spec.track(hist, root)
        acc.states = 1
        ncont = 1 + sum(1 for c in hist if c[0] in ('change', 'file'))
        default = next(iter(arg_tuples(kind, 'quick')))
        for call in arg_tuples(kind, tier):
            if not in_domain(call, root, scope, depth, allow_misaligned):
                acc.outcome('skipped-out-of-domain')
                continue
            eff = (call[3] if kind == 'diff' else
                   (call[2] or spec.inherited_encoding(scope, depth)))
            nt = ncont >= 2 and (call != default or eff != 'utf-8')
            run(hist + [call], root, nt)
        acc.sample({'root': root, 'history': [c[:2] for c in hist],
                    'swept_call': kind}, 1)
        return acc
    _, root, si, combos = unit
    sk = structures(tier)[si]
    slots, base = slots_for(sk)
    for combo in combos:
        alts = [range(1, len(slots[i][2])) for i in combo]
        for choice in itertools.product(*alts):
            calls = [list(c) for c in base]
            for si_, ci in zip(combo, choice):
                ci_, ai, dom = slots[si_]
                calls[ci_][ai] = dom[ci]
            if not file_domain_ok(calls, root, allow_misaligned):
                acc.outcome('skipped-out-of-domain')
                continue
            run(calls, root, len(combo) >= 1)
            acc.states += 1
    acc.sample({'root': root, 'skeleton': sk,
                'deviating_slots': [list(c) for c in combos[-1:]]}, 1)
    return acc


# --------------------------------------------------- scale (boundary sizes)
# Small alphabets cannot reach behaviour that changes when a size or count
# crosses a threshold. The scale pass enumerates, one dimension at a time
# (and all pairs in thorough), BOUNDARY values of every scalable quantity:
# counts of changes / files, lines per content, line length around the
# reader's 96-byte block and beyond, indentation, metadata width / depth /
# string length, diff size. It is exhaustive over the listed boundary values,
# not a sample.

SCALE_DIMS = {
    'changes': [1, 2, 3, 4, 5, 10, 33],
    'files': [1, 2, 3, 4, 5, 10, 33],
    'pre_lines': [1, 2, 9, 10, 11, 99, 100, 101, 1000],
    'pre_width': [1, 94, 95, 96, 97, 191, 192, 193, 255, 256, 1000, 5000,
                  70000],
    'indent': [4, 8, 9, 10, 11, 16, 99, 100, 101, 1000],
    'meta_keys': [1, 2, 9, 10, 11, 100, 1000],
    'meta_depth': [1, 2, 3, 4, 5, 8, 16, 64],
    'meta_strlen': [1, 95, 96, 97, 1000, 70000],
    'diff_lines': [1, 2, 9, 10, 11, 99, 100, 101, 1000, 10000],
    'diff_width': [1, 95, 96, 97, 192, 1000, 70000],
    # exact total content sizes around buffer-size boundaries
    'pre_total': [0] + BOUNDARY_SIZES_Q,
    'diff_total': [0] + BOUNDARY_SIZES_Q + [131073],
    'diff_one': [0] + BOUNDARY_SIZES_Q,
    'meta_total': [0, 1100, 4200, 8300, 66000],
    # multi-byte characters straddling every buffer-size boundary
    'straddle': [0, 1100, 4200, 8300, 66000],
}
SCALE_DEFAULT = {'changes': 2, 'files': 2, 'pre_lines': 2, 'pre_width': 5,
                 'indent': 4, 'meta_keys': 2, 'meta_depth': 1,
                 'meta_strlen': 3, 'diff_lines': 3, 'diff_width': 5,
                 'pre_total': 0, 'diff_total': 0, 'diff_one': 0,
                 'meta_total': 0, 'straddle': 0, 'pre_barecr': 0,
                 'char': -1}


def scale_calls(cfg, enc=None, le=None):
    """Call list for one scale configuration."""
    nl = '\r\n' if le == 'dos' else '\n'

    def text(nlines, width, tag):
        return nl.join(('%s%d ' % (tag, i)).ljust(width, 'x')[:max(1, width)]
                       for i in range(nlines)) + nl

    def meta(tag):
        d = {}
        for i in range(cfg['meta_keys']):
            d['%s-key-%04d' % (tag, i)] = 's' * cfg['meta_strlen']
        inner = {'leaf': [1, 'two', None]}
        for i in range(cfg['meta_depth'] - 1):
            inner = {'level-%d' % i: inner, 'l': [inner]} if i < 6 else \
                {'level-%d' % i: inner}
        d['nest'] = inner
        return d
    from mc.alphabets import sized_text, straddle_text
    ptext = text(cfg['pre_lines'], cfg['pre_width'], 'p')
    if cfg.get('pre_total'):
        ptext = sized_text(cfg['pre_total'], 'lines', nl, 'p')
    if cfg.get('straddle'):
        ptext = straddle_text(cfg['straddle'], enc or 'utf-8', nl)
    if cfg.get('pre_barecr'):
        # lines containing lone CRs (and, in dos text, lone LFs)
        other = '\n' if le == 'dos' else '\r'
        line = 'bare %s here and %s there' % (other, other)
        ptext = (line + nl) * (cfg['pre_barecr'] // (len(line) + len(nl)))
    mmeta = meta('main')
    ch = None
    if cfg.get('char', -1) >= 0:
        # one special character inside a line, at the start of a line and
        # at the end of a line; in a metadata key and value; in a diff
        ch = chr(cfg['char'])
        ptext = 'a' + ch + 'b' + nl + ch + 'line' + nl + 'end' + ch + nl
        mmeta['k' + ch] = ['v' + ch + 'w', ch]
    if cfg.get('meta_total'):
        mmeta['blob'] = ['v' * 50] * (cfg['meta_total'] // 60)
    calls = [['preamble', ptext, enc, cfg['indent'], le, None],
             ['meta', mmeta, enc]]
    for c in range(cfg['changes']):
        calls.append(['change', None])
        calls.append(['preamble', text(2, 5, 'c%d' % c), None, 4, None,
                      None])
        calls.append(['meta', {'id': 'c%d' % c}, None])
        for f in range(cfg['files']):
            calls.append(['file', None])
            calls.append(['meta', {'path': 'f%d-%d' % (c, f)}, None])
            if (c + f) % 2 == 0 or (c == 0 and f == 0):
                body = text(cfg['diff_lines'] if (c == 0 and f == 0) else 2,
                            cfg['diff_width'] if (c == 0 and f == 0) else 5,
                            '+d').encode('ascii')
                if c == 0 and f == 0 and cfg.get('diff_total'):
                    body = sized_text(cfg['diff_total'], 'lines', nl,
                                      '+').encode('ascii')
                if c == 0 and f == 0 and cfg.get('diff_one'):
                    body = sized_text(cfg['diff_one'], 'one', nl,
                                      '+').encode('ascii')
                if c == 0 and f == 0 and ch is not None:
                    body = nl.join(['@@ -1 +1,3 @@', '-x', '+a' + ch + 'b',
                                    '+' + ch, '+e' + ch, '']).encode('utf-8')
                calls.append(['diff', body, None, None, le])
    return calls


def scale_configs(tier):
    out = [dict(SCALE_DEFAULT)]
    for dim, vals in SCALE_DIMS.items():
        for v in vals:
            if v == SCALE_DEFAULT[dim]:
                continue
            c = dict(SCALE_DEFAULT)
            c[dim] = v
            out.append(c)
    # every PAIR of dimensions at one representative large value each
    # (two quantities unusual at the same time)
    big = {'changes': 5, 'files': 5, 'pre_lines': 101, 'pre_width': 193,
           'indent': 11, 'meta_keys': 101, 'meta_depth': 8,
           'meta_strlen': 1000, 'diff_lines': 101, 'diff_width': 193,
           'pre_total': 8193, 'diff_total': 8193, 'diff_one': 4097,
           'meta_total': 8300, 'straddle': 8300}
    names = sorted(big)
    for i, a in enumerate(names):
        for b in names[i + 1:]:
            if {a, b} <= {'pre_lines', 'pre_width', 'pre_total', 'straddle'} \
                    or {a, b} <= {'diff_lines', 'diff_width', 'diff_total',
                                  'diff_one'}:
                continue        # these override each other
            c = dict(SCALE_DEFAULT)
            c[a], c[b] = big[a], big[b]
            out.append(c)
    # the character pass: one special character at a time (every control,
    # separator, line-breaking, format and normalisation-sensitive character
    # of mc.alphabets.SPECIAL_CHARS), indented and not
    from mc.alphabets import SPECIAL_CHARS
    for cp in SPECIAL_CHARS:
        for indent in (4, 0):
            c = dict(SCALE_DEFAULT)
            c['char'] = cp
            c['indent'] = indent
            out.append(c)
    # "huge": thresholds are one-sided (behaviour changes for everything
    # at or above T), so one value far above every plausible buffer size
    # covers them all -- combined with indentation and (via the variants)
    # with multi-byte encodings and CRLF
    for dim in ('pre_total', 'diff_total', 'diff_one', 'meta_total',
                'straddle', 'pre_barecr'):
        for size in ((300000,) if tier == 'quick' else (300000, 1300000)):
            for indent in (4, 3):
                c = dict(SCALE_DEFAULT)
                c[dim] = size
                c['indent'] = indent
                c['_huge'] = 1
                if dim.startswith('pre') or dim == 'straddle' or indent == 4:
                    out.append(c)
    for dim in ('pre_total', 'diff_total'):
        for size in ((2500000,) if tier == 'quick' else (2500000, 20000000)):
            c = dict(SCALE_DEFAULT)
            c.update({dim: size, 'indent': 4, '_huge': 2})
            out.append(c)
    c = dict(SCALE_DEFAULT)
    c.update({'changes': 40, 'files': 12, 'diff_total': 300000, '_huge': 1})
    out.append(c)
    c = dict(SCALE_DEFAULT)
    c.update({'diff_lines': 120000, 'pre_lines': 30000, '_huge': 1})
    out.append(c)
    # long runs of the same calls on one writer / reader / tree
    for nch, nf in ((1, 3000), (1500, 1), (300, 10)):
        c = dict(SCALE_DEFAULT)
        c.update({'changes': nch, 'files': nf, '_huge': 1})
        out.append(c)
    if tier == 'thorough':
        dims = sorted(SCALE_DIMS)
        for i, a in enumerate(dims):
            for b in dims[i + 1:]:
                for va in SCALE_DIMS[a][-3:]:
                    for vb in SCALE_DIMS[b][-3:]:
                        if va * vb > 3000000 or not va or not vb:
                            continue
                        c = dict(SCALE_DEFAULT)
                        c[a], c[b] = va, vb
                        out.append(c)
    return out


def scale_units(tier, per_unit=6):
    cfgs = scale_configs(tier)
    per_unit = max(2, per_unit // 2)
    variants = [('utf-8', None, None), ('utf-8', 'utf-16', None),
                ('utf-16', None, 'dos')]
    items = [(ci, vi) for ci in range(len(cfgs))
             for vi in range(len(variants))
             if not cfgs[ci].get('_huge') or vi != 1 or tier == 'thorough']
    # huge configurations first (they are the long poles)
    items.sort(key=lambda it: -cfgs[it[0]].get('_huge', 0))
    return [('scale', items[i:i + per_unit])
            for i in range(0, len(items), per_unit)], cfgs, variants


def wr_run_scale_unit(unit, tier, oracle, acc_cls):
    from mc.spec import to_jsonable
    acc = acc_cls()
    _, cfgs, variants = scale_units(tier)
    for ci, vi in unit[1]:
        cfg = cfgs[ci]
        root, enc, le = variants[vi]
        calls = scale_calls(cfg, enc, le)
        ex = Exec(calls, root)
        viols = oracle(ex)
        acc.evals += 1
        acc.states += 1
        acc.transitions += 1
        acc.validated += 1
        acc.nontrivial += 1
        for key, msg in viols:
            dev = sorted(k for k in cfg if k in SCALE_DEFAULT and
                         cfg[k] != SCALE_DEFAULT[k])
            acc.violation('%s:scale' % key,
                          '%s\nscale configuration %r (root %s, enc %s, '
                          'line endings %s)' % (str(msg)[:1500], cfg, root,
                                                enc, le),
                          {'kind': 'scale', 'cfg': cfg, 'variant': vi})
        acc.outcome('ok' if not viols else 'violation')
    acc.sample({'scale_configuration': cfgs[unit[1][0][0]]}, 1)
    return acc


# ---------------------------------------------------------- interleavings
# Two threads, each writing its own file with its own DiffXWriter and then
# reading it back with its own DiffXReader, under the controlled scheduler
# of mc/sched.py (scheduling points: every write and every read on the
# threads' own streams). The threads share nothing but the library; any
# interference goes through module-level state of the library.

import threading as _threading

_TCTL = {}


def _tpoint():
    ctl = _TCTL.get(_threading.get_ident())
    if ctl is not None:
        ctl.point()


class _PointSink(object):
    def __init__(self):
        self.buf = bytearray()

    def write(self, b):
        _tpoint()
        self.buf += b
        return len(b)

    def flush(self):
        pass

    def getvalue(self):
        return bytes(self.buf)


class _PointSource(object):
    def __init__(self, data):
        import io
        self._s = io.BytesIO(data)

    def read(self, *a):
        _tpoint()
        return self._s.read(*a)

    def seek(self, *a):
        return self._s.seek(*a)

    def tell(self):
        return self._s.tell()

    def close(self):
        self._s.close()


def _tdoc(root, le, crlf):
    """One document per (main encoding, line endings, header newline): the
    same calls everywhere, so that anything keyed by line_endings / section
    kind / option names collides between two threads while the encodings
    (and header newlines) differ."""
    nl = '\r\n' if le == 'dos' else '\n'
    t = lambda x: x.replace('\n', nl)
    return (root, [
        ['preamble', t('first\nfile é\n'), None, 4, le, None],
        ['meta', {'k': ['v', 1]}, None], ['change', None],
        ['preamble', t('c é\n'), None, 0, le, None],
        ['file', None], ['meta', {'path': 'a', 'z': None}, None],
        ['diff', t('--- a\n+++ b\n@@ -1 +1 @@\n-x\n+y\n').encode('ascii'),
         None, None, le]], crlf)


THREAD_DOCS = [_tdoc('utf-8', 'unix', False), _tdoc('utf-16', 'unix', False),
               _tdoc('latin-1', 'dos', False), _tdoc('utf-32', 'dos', True),
               _tdoc('utf-8', 'unix', True)]


def _crlf_headers(data):
    """The same file as another producer writes it: CRLF after headers."""
    out = []
    pos = 0
    recs, err = spec.parse(data)
    assert err is None
    for r in recs:
        j = data.index(b'\n', pos)
        out.append(data[pos:j] + b'\r\n')
        n = r['options'].get('length', 0) \
            if r['section'] in spec.CONTENT_IDS else 0
        out.append(data[j + 1:j + 1 + n])
        pos = j + 1 + n
    return b''.join(out)


def _thread_roundtrip(doc):
    root, calls, crlf = doc

    def body(ctl):
        _TCTL[_threading.get_ident()] = ctl
        try:
            from pydiffx import DiffXWriter, DiffXReader
            sink = _PointSink()
            w = DiffXWriter(sink, encoding=fresh(root))
            for c in calls:
                apply_call(w, c)
            data = sink.getvalue()
            rdata = _crlf_headers(data) if crlf else data
            recs = [rec_core(r, with_line=False)
                    for r in DiffXReader(_PointSource(rdata))]
            return data, freeze(recs)
        finally:
            _TCTL.pop(_threading.get_ident(), None)
    return body


def thread_units():
    n = len(THREAD_DOCS)
    return [('threads', a, b) for a in range(n) for b in range(a, n)]


def run_thread_unit(unit, tier, acc_cls):
    from mc import sched
    from mc.explore import Acc
    acc = acc_cls()
    _, ia, ib = unit
    da, db = THREAD_DOCS[ia], THREAD_DOCS[ib]
    want = [_thread_roundtrip(da)(None), _thread_roundtrip(db)(None)]
    ref = [spec.serialize(d[1], d[0])[0] for d in (da, db)]
    pre = []
    for t in range(2):
        if want[t][0] != ref[t]:
            pre.append(('sequential-bytes-differ-from-reference', 'doc %d'
                        % (ia, ib)[t]))

    def make():
        return [_thread_roundtrip(da), _thread_roundtrip(db)], None

    def check(x, ctx):
        v = []
        for t in range(2):
            if x.errors[t] is not None:
                v.append(('interleaved-roundtrip-raised:%s:%s'
                          % (type(x.errors[t]).__name__,
                             site_of(x.errors[t])), repr(x.errors[t])))
            elif x.results[t] != want[t]:
                what = 'bytes' if x.results[t][0] != want[t][0] else 'records'
                v.append(('interleaved-roundtrip-differs:%s' % what,
                          'thread %d produced different %s than when run '
                          'alone' % (t, what)))
        acc.evals += 1
        acc.transitions += len(x.trace)
        acc.validated += 1
        acc.nontrivial += 1
        acc.outcome('ok' if not v else 'violation')
        return v
    n, ntraces, viols, capped = sched.explore(
        make, check, bound=2 if tier == 'quick' else 3)
    acc.states = ntraces
    for key, msg in pre:
        acc.violation(key, msg, {'kind': 'none'})
    seen = set()
    for trace, choices, (key, msg) in viols:
        if key in seen:
            continue
        seen.add(key)
        acc.violation(key, '%s\ntwo threads writing and reading documents '
                      '%d and %d; schedule %r' % (msg, ia, ib, list(trace)),
                      {'kind': 'threads', 'docs': [ia, ib],
                       'choices': list(choices)})
    acc.sample({'thread_documents': [ia, ib], 'executions': n,
                'distinct_schedules': ntraces}, 1)
    return acc


def replay_threads(payload):
    from mc import sched
    ia, ib = payload['docs']
    da, db = THREAD_DOCS[ia], THREAD_DOCS[ib]
    want = [_thread_roundtrip(da)(None), _thread_roundtrip(db)(None)]
    x = sched.Execution([_thread_roundtrip(da), _thread_roundtrip(db)],
                        payload['choices']).run()
    out = []
    for t in range(2):
        if x.errors[t] is not None:
            out.append(('interleaved-roundtrip-raised:%s:%s'
                        % (type(x.errors[t]).__name__, site_of(x.errors[t])),
                        repr(x.errors[t])))
        elif x.results[t] != want[t]:
            what = 'bytes' if x.results[t][0] != want[t][0] else 'records'
            out.append(('interleaved-roundtrip-differs:%s' % what,
                        'thread %d' % t))
    return out


# ---------------------------------------------------------------- sink kinds
# The writer documents "an opened file handle or an in-progress web server
# response" as its stream: the same calls must put the same bytes into
# every kind of sink, whether write() returns the byte count or None (as
# most hand-written file-likes and web responses do).

SINK_KINDS = ['returns-none', 'bytesio', 'file', 'file-raw',
              'buffered-16', 'spooled', 'gzip']


class _NoneSink(object):
    """A file-like as frameworks provide them: write() returns nothing."""
    ret = None

    def __init__(self):
        self.parts = []

    def write(self, b):
        self.parts.append(bytes(b))
        return self.ret

    def flush(self):
        pass

    def getvalue(self):
        return b''.join(self.parts)


def write_through(doc, kind):
    """Run doc = (root, calls, _) into a sink of `kind`; return its bytes."""
    import gzip
    import io
    import os
    import tempfile
    from pydiffx import DiffXWriter
    root, calls = doc[0], doc[1]
    tmp = None
    raw = None
    if kind == 'returns-none':
        fp = _NoneSink()
    elif kind == 'bytesio':
        fp = io.BytesIO()
    elif kind in ('file', 'file-raw'):
        fd, tmp = tempfile.mkstemp(prefix='verif-sink-')
        os.close(fd)
        fp = open(tmp, 'wb', buffering=0 if kind == 'file-raw' else -1)
    elif kind == 'buffered-16':
        raw = io.BytesIO()
        fp = io.BufferedWriter(raw, buffer_size=16)
    elif kind == 'spooled':
        fp = tempfile.SpooledTemporaryFile(max_size=64)
    elif kind == 'gzip':
        raw = io.BytesIO()
        fp = gzip.GzipFile(fileobj=raw, mode='wb')
    else:
        raise ValueError(kind)
    try:
        w = DiffXWriter(fp, encoding=fresh(root))
        for c in calls:
            apply_call(w, c)
        if kind in ('returns-none', 'bytesio'):
            return fp.getvalue()
        if kind in ('file', 'file-raw'):
            fp.close()
            with open(tmp, 'rb') as f:
                return f.read()
        if kind == 'buffered-16':
            fp.flush()
            return raw.getvalue()
        if kind == 'spooled':
            fp.seek(0)
            return fp.read()
        fp.close()
        return gzip.decompress(raw.getvalue())
    finally:
        try:
            fp.close()
        except Exception:
            pass
        if tmp:
            try:
                os.unlink(tmp)
            except OSError:
                pass


def sink_docs():
    docs = list(THREAD_DOCS)
    big = 'line of text \u00e9\n' * 700
    docs.append(('utf-16', [['preamble', big, None, 2, None, None],
                            ['change', None], ['file', None],
                            ['meta', {'path': 'f', 'blob': 'v' * 9000}, None],
                            ['diff', b'+x\n' * 5000, None, None, None]],
                 False))
    return docs


def check_sink(di, kind):
    doc = sink_docs()[di]
    want = spec.serialize(doc[1], doc[0])[0]
    try:
        got = write_through(doc, kind)
    except Exception as e:
        return [('sink-kind-raised:%s:%s' % (type(e).__name__, site_of(e)),
                 'document %d written into a %s sink: %r' % (di, kind, e))]
    if got != want:
        return [('bytes-depend-on-sink-kind',
                 'document %d written into a %s sink: %d bytes, reference '
                 '%d bytes' % (di, kind, len(got), len(want)))]
    return []


def sink_units():
    return [('sinks',)]


def run_sink_unit(unit, tier, acc_cls):
    acc = acc_cls()
    for di in range(len(sink_docs())):
        for kind in SINK_KINDS:
            viols = check_sink(di, kind)
            acc.evals += 1
            acc.states += 1
            acc.transitions += len(sink_docs()[di][1])
            acc.validated += 1
            acc.nontrivial += 1
            for key, msg in viols:
                acc.violation(key, msg, {'kind': 'sink', 'doc': di,
                                         'sink': kind})
            acc.outcome('ok' if not viols else 'violation')
    acc.sample({'sink_kinds': SINK_KINDS}, 1)
    return acc


def replay_sink(payload):
    return check_sink(payload['doc'], payload['sink'])


# ----------------------------------------------- live objects in one thread
# Two writers (then two readers) alive at the same time in ONE thread, their
# calls interleaved in every possible order (every merge of the two call
# sequences; readers in the quick tier: merges with <= 4 switches): each
# object must behave as
# it does alone. Catches per-thread / per-process state the library shares
# between live objects (thread-local scratch, module tables keyed by option
# values) that separate threads would never collide on.

def _merges(na, nb, max_switches=None):
    """Every interleaving of na 'A' steps and nb 'B' steps as a string."""
    out = []

    def rec(pre, a, b, sw):
        if a == 0 and b == 0:
            out.append(pre)
            return
        for ch, ok in (('A', a), ('B', b)):
            if not ok:
                continue
            s2 = sw + (1 if pre and pre[-1] != ch else 0)
            if max_switches is not None and s2 > max_switches:
                continue
            rec(pre + ch, a - (ch == 'A'), b - (ch == 'B'), s2)
    rec('', na, nb, 0)
    return out


def live_units():
    n = len(THREAD_DOCS)
    return [('live', a, b) for a in range(n) for b in range(a, n)]


def _live_solo(doc):
    from pydiffx import DiffXWriter, DiffXReader
    from mc.observe import new_writer
    root, calls, crlf = doc
    w, s = new_writer(root)
    for c in calls:
        apply_call(w, c)
    data = s.getvalue()
    rdata = _crlf_headers(data) if crlf else data
    import io
    recs = [rec_core(r, with_line=False)
            for r in DiffXReader(io.BytesIO(rdata))]
    return data, rdata, recs


_LIVE_SOLO = {}


def check_live(ia, ib, order, phase):
    """phase 'write': the two writers' calls merged in `order`; phase
    'read': the two readers' next() calls merged in `order`."""
    import io
    from pydiffx import DiffXReader
    from mc.observe import new_writer
    docs = [THREAD_DOCS[ia], THREAD_DOCS[ib]]
    for i in (ia, ib):
        if i not in _LIVE_SOLO:
            _LIVE_SOLO[i] = _live_solo(THREAD_DOCS[i])
    solo = [_LIVE_SOLO[ia], _LIVE_SOLO[ib]]
    v = []
    try:
        if phase == 'write':
            ws = [new_writer(d[0]) for d in docs]
            pos = [0, 0]
            for ch in order:
                t = 0 if ch == 'A' else 1
                apply_call(ws[t][0], docs[t][1][pos[t]])
                pos[t] += 1
            for t in range(2):
                if ws[t][1].getvalue() != solo[t][0]:
                    v.append(('live-writers-interfere',
                              'writer %d (main encoding %s) wrote different '
                              'bytes than alone when its calls were '
                              'interleaved with another live writer\'s in '
                              'the order %s' % (t, docs[t][0], order)))
        else:
            gens = [iter(DiffXReader(io.BytesIO(solo[t][1])))
                    for t in range(2)]
            got = [[], []]
            for ch in order:
                t = 0 if ch == 'A' else 1
                try:
                    got[t].append(rec_core(next(gens[t]), with_line=False))
                except StopIteration:
                    got[t].append('<end>')
            for t in range(2):
                if freeze(got[t]) != freeze(solo[t][2] + ['<end>']):
                    v.append(('live-readers-interfere',
                              'reader %d yielded different records than '
                              'alone when interleaved with another live '
                              'reader in the order %s' % (t, order)))
    except Exception as e:
        v.append(('live-objects-raised:%s:%s' % (type(e).__name__,
                                                 site_of(e)),
                  '%s phase, order %s: %r' % (phase, order, e)))
    return v


def run_live_unit(unit, tier, acc_cls):
    acc = acc_cls()
    _, ia, ib = unit
    na, nb = len(THREAD_DOCS[ia][1]), len(THREAD_DOCS[ib][1])
    total = 0
    for phase, (xa, xb) in (('write', (na, nb)),
                            ('read', (na + 2, nb + 2))):
        # readers: one record per call plus the main header plus the end
        orders = _merges(xa, xb, None if phase == 'write' or
                         tier != 'quick' else 4)
        for order in orders:
            viols = check_live(ia, ib, order, phase)
            total += 1
            acc.evals += 1
            acc.transitions += len(order)
            acc.validated += 1
            acc.nontrivial += 1
            for key, msg in viols:
                acc.violation(key, msg, {'kind': 'live', 'docs': [ia, ib],
                                         'order': order, 'phase': phase})
            acc.outcome('ok' if not viols else 'violation')
    acc.states = total
    acc.sample({'live_documents': [ia, ib], 'interleavings': total}, 1)
    return acc


def replay_live(payload):
    ia, ib = payload['docs']
    return check_live(ia, ib, payload['order'], payload['phase'])


# ------------------------------------------------------------ small texts
# Every text over the line-structure alphabet {LF, CR, blank, "a"} up to
# length 5 (6 in the thorough tier), as an indented / un-indented preamble
# and as a diff, with detected and with declared line endings.

TEXT_ALPHA = ['\n', '\r', ' ', 'a']


def small_text_units(tier):
    return [('small-texts', a) for a in range(len(TEXT_ALPHA))]


def run_small_text_unit(unit, tier, oracle, acc_cls):
    import itertools
    from mc.spec import to_jsonable
    acc = acc_cls()
    L = 5 if tier == 'quick' else 6
    first = TEXT_ALPHA[unit[1]]
    for n in range(0, L):
        for rest in itertools.product(TEXT_ALPHA, repeat=n):
            text = first + ''.join(rest)
            for indent in (0, 2):
                for le in (None, 'dos', 'unix'):
                    calls = [['preamble', text, None, indent, le, None],
                             ['change', None], ['file', None],
                             ['meta', {'k': 'v'}, None],
                             ['diff', text.encode('ascii'), None, None, le]]
                    ex = Exec(calls, 'utf-8')
                    viols = oracle(ex)
                    acc.evals += 1
                    acc.states += 1
                    acc.transitions += 1
                    acc.validated += 1
                    acc.nontrivial += 1
                    for key, msg in viols:
                        acc.violation(key + ':small-text', str(msg)[:800],
                                      {'kind': 'calls', 'root': 'utf-8',
                                       'calls': to_jsonable(calls),
                                       'suffix': ':small-text'})
                    acc.outcome('ok' if not viols else 'violation')
    acc.sample({'small_texts_starting_with': repr(first), 'max_length': L},
               1)
    return acc
