"""Alphabets, simplest first. Each element is there for a reason (DESIGN 3.3)."""

LONG = 'L' * 230 + '\n'

# (name, text). 'misaligned' marks texts whose UTF-16 bytes contain a
# misaligned newline byte pattern (excluded where byte-level and text-level
# line splitting legitimately differ).
TEXTS = [
    ('a-nonl', 'a'),
    ('a', 'a\n'),
    ('crlf', 'a\r\n'),
    ('dos-then-unix', 'a\r\nb\n'),
    ('unix-then-dos', 'a\nb\r\n'),
    ('lf-only', '\n'),
    ('crlf-only', '\r\n'),
    ('lone-cr', 'a\rb\n'),
    ('indented', ' a\n  b\n     c\n'),
    ('hdr-change', '#.change:\n'),
    ('hdr-diffx', '#diffx: version=1.0\nx\n'),
    ('hdr-diff', 'x\n#...diff: length=1\n'),
    ('hunk', '@@ -1 +1 @@\n-x\n+y\n'),
    ('bomchar', '\ufeffa\n'),
    ('nul', 'a\x00b\n'),
    ('latin', 'é\n'),
    ('emoji', '😀\n'),
    ('splitlines-chars', 'a\x0bb\x0cc\x1cd\x85e\u2028f\n'),
    ('blank-lines', 'a\n\n\nb'),
    ('long', LONG),
    ('misaligned', '\u0a41\u4100\n'),
    # the same with CRLF line endings (first "newline" byte pattern found in
    # UTF-16 / UTF-32 bytes is not a line ending at all), with and without a
    # final line ending
    ('misaligned-crlf', '\u0a85\u0100\r\nb\r\n'),
    ('misaligned-crlf-nonl', '\u0a85\u3000 x\r\nb'),
]
TEXT_BY_NAME = dict(TEXTS)

METAS = [
    ('simple', {'a': 'x'}),
    ('nested', {'k': {'sub': [1, 'two', {'three': None}]}, 'z': 'é'}),
    ('sortkeys', {'b': 1, 'a': 2, 'B': 3, 'é': 4, 'aa': 5}),
    ('strings', {'s': 'line1\nline2', 't': 'é ', 'h': '#.change:',
                 'q': 'a"b\\c\x7f'}),
    ('consts', {'n': None, 't': True, 'f': False}),
    ('numbers', {'big': 12345678901234567890123, 'neg': -7, 'fl': 2.5}),
    ('empties', {'l': [], 'd': {'e': {}}, 's': ''}),
    ('emoji', {'😀': '😀'}),
    # unsorted insertion order at every nesting level, incl. dicts inside
    # lists inside dicts (canonical form must sort them all)
    ('deep-unsorted', {'z': [{'source': 's', 'dest': 'd', 'bytes': 3},
                             [{'b': 1, 'a': 2}]],
                       'a': {'y': {'q': 1, 'p': [{'n': 1, 'm': 2}]}}}),
]
META_BY_NAME = dict(METAS)

DIFFS = [
    ('a', b'a\n'),
    ('a-nonl', b'a'),
    ('crlf', b'a\r\nb\r\n'),
    ('mixed', b'a\r\nb\n'),
    ('unix-then-dos', b'a\nb\r\n'),
    ('binary', b'\x00\xff\xfe\n\x80'),
    ('hdr', b'#..file:\n#...diff: length=3\n'),
    ('real', b'--- a\n+++ b\n@@ -1 +1,2 @@\n-x\n+y\n+z\n'),
    ('lf-only', b'\n'),
    ('utf16', 'a\r\nb\n'.encode('utf-16')),
    ('utf16le-nonl', 'x'.encode('utf-16-le')),
]
DIFF_BY_NAME = dict(DIFFS)

ENCODINGS = [None, 'utf-8', 'utf-16', 'utf-16-le', 'utf-16-be', 'utf-32',
             'utf-32-be', 'latin-1', 'ascii']
SCOPE_ENCODINGS = [None, 'utf-8', 'utf-16', 'utf-32-be', 'latin-1']
DIFF_ENCODINGS = [None, 'utf-8', 'utf-16', 'utf-16-le', 'utf-32', 'latin-1']
INDENTS = [4, 0, 1, 7]
LINE_ENDINGS = [None, 'unix', 'dos']
MIMETYPES = [None, 'text/plain', 'text/markdown']
DIFF_TYPES = [None, 'text', 'binary']


def encodable(text, codec):
    try:
        text.encode(codec)
        return True
    except (UnicodeEncodeError, LookupError):
        return False


def misaligned(text_or_bytes, codec):
    """True if byte-level search for the codec's LF finds an occurrence
    that is not aligned to the codec's code unit."""
    from mc.spec import nl, signature
    if codec is None:
        return False
    u = nl('unix', codec)
    if len(u) == 1:
        return False
    if isinstance(text_or_bytes, str):
        try:
            data = text_or_bytes.encode(codec)[len(signature(codec)):]
        except UnicodeEncodeError:
            return False
    else:
        data = text_or_bytes
        sig = signature(codec)
        if sig and data.startswith(sig):
            data = data[len(sig):]
    i = data.find(u)
    while i != -1:
        if i % len(u):
            return True
        i = data.find(u, i + 1)
    # a CR unit straddling is irrelevant: CRLF ends with LF
    return False


# ----------------------------------------------------------- boundary sizes
# Sizes at which implementations typically change behaviour: powers of two
# used as buffer / block sizes (+-1), the reader's 96-byte read-ahead block,
# and decimal digit boundaries. Used by the "scale" pass of every check that
# has a scalable input; enumerated exhaustively, one dimension at a time.
BUFFER_SIZES = [1024, 4096, 8192, 65536]
BOUNDARY_SIZES = sorted(set(
    [b + d for b in BUFFER_SIZES for d in (-1, 0, 1)] +
    [95, 96, 97, 191, 192, 193, 999, 1000, 1001, 9999, 10000, 10001,
     131073]))
BOUNDARY_SIZES_Q = [1023, 1024, 1025, 4095, 4096, 4097, 8191, 8192, 8193,
                    65535, 65536, 65537]


def sized_text(n, shape='lines', nl='\n', tag='t'):
    """ASCII text of exactly n characters (n >= len(nl)+1) ending in nl.
    shape 'lines': ~40-character numbered lines; 'one': a single line."""
    if shape == 'one':
        return ('%s-' % tag).ljust(n - len(nl), 'x')[:n - len(nl)] + nl
    out = []
    total = 0
    i = 0
    while True:
        line = ('%s%05d ' % (tag, i)).ljust(40 - len(nl), '.') + nl
        if total + len(line) > n - (len(nl) + 1):
            rest = n - total
            out.append('z' * (rest - len(nl)) + nl)
            break
        out.append(line)
        total += len(line)
        i += 1
    s = ''.join(out)
    assert len(s) == n, (len(s), n)
    return s


def straddle_text(n, codec='utf-8', nl='\n', ch=None):
    """Text whose encoding in `codec` (without BOM) is about n bytes and has
    a multi-byte character starting one byte before every buffer-size
    boundary below n (so a block-wise decoder that cuts at byte offsets
    splits it). Returns the text."""
    from mc.spec import enc_nobom
    if ch is None:
        ch = '\U0001f600' if codec.lower().replace('_', '-').startswith(
            'utf-16') else 'é'
    out = []
    size = 0
    half = len(enc_nobom(ch, codec)) // 2
    targets = [b - half for b in BUFFER_SIZES if b - half < n]
    i = 0
    w = len(enc_nobom('a', codec))
    cw = len(enc_nobom(ch, codec))
    nlw = len(enc_nobom(nl, codec))
    while size < n:
        nxt = next((t for t in targets if t >= size), None)
        line = '+s%05d ' % i
        body = line.ljust(30, 'y')
        if nxt is not None and nxt - size < (len(body) + 2) * w + nlw:
            # place ch so that it begins exactly at byte offset nxt
            pad = nxt - size
            if pad % w == 0 and pad // w >= 1:
                k = pad // w
                body = ('+' + 'p' * max(0, k - 1))[:k] + ch + 'q'
                targets.remove(nxt)
            elif pad % w:
                # unreachable alignment for this code unit width: shift by
                # emitting a short filler first
                body = '+f'
        out.append(body + nl)
        size += len(enc_nobom(body + nl, codec))
        i += 1
    return ''.join(out)


# ------------------------------------------------- realistic content (spec)
# Contents of the specification's own example files: realistic metadata keys
# and values (paths, revisions, dates, e-mail addresses, stats), commit
# messages and vendor diffs. They extend the synthetic alphabets so that a
# change keyed on what data LOOKS like (a "path" key, a leading "/", a date,
# "Index:" lines) is exercised by every check that sweeps the alphabets.
def _example_contents():
    import glob
    import os
    from mc import spec as _spec
    texts, metas, diffs = [], [], []
    seen = set()
    for p in sorted(glob.glob(os.path.join(_spec.REPO, 'docs', 'spec',
                                           'example-diffs', '*.diff'))):
        recs, err = _spec.parse(open(p, 'rb').read())
        if err is not None:
            continue
        base = os.path.basename(p)[:-5]
        for i, r in enumerate(recs):
            for k, lst in (('text', texts), ('metadata', metas),
                           ('diff', diffs)):
                if k in r:
                    key = repr(r[k])
                    if key in seen or len(key) > 4000:
                        continue
                    seen.add(key)
                    lst.append(('ex:%s:%d' % (base, i), r[k]))
    return texts, metas, diffs


try:
    _t, _m, _d = _example_contents()
    TEXTS += _t[:4]
    METAS += [m for m in _m if isinstance(m[1], dict) and m[1]][:8]
    DIFFS += _d[:4]
    TEXT_BY_NAME.update(dict(_t))
    META_BY_NAME.update(dict(_m))
    DIFF_BY_NAME.update(dict(_d))
except Exception:         # the docs are optional for the alphabets
    pass
# path-, date- and version-shaped values, keys the specification names
METAS.append(('semantic', {
    'path': '/abs/../x/./y\\\\z', 'revision': {'old': '1.2.3', 'new': 'HEAD~1'},
    'date': '2021-06-01T19:26:31-07:00', 'author': 'A B <a@example.com>',
    'op': 'move', 'type': 'symlink', 'unix file mode': '0100644',
    'stats': {'insertions': 1}, 'id': 'a25e7b28af5e3184946068f432122c68',
    'symlink target': '../t', 'mimetype': 'text/plain', 'length': 5,
    'encoding': 'utf-16', 'line_endings': 'dos', 'version': '2.0'}))


META_BY_NAME['semantic'] = METAS[-1][1]

# phrases that diff tools emit (a library for diffs may special-case them)
VENDOR_DIFF = b"\n".join([
    b"diff --git a/img.png b/img.png", b"new file mode 100644",
    b"index 0000000..e69de29", b"Binary files /dev/null and b/img.png differ",
    b"Binary files a and b differ", b"GIT binary patch", b"literal 5",
    b"delta 14", b"rename from old/name", b"rename to new/name",
    b"similarity index 90%", b"deleted file mode 100755",
    b"Index: trunk/file.c", b"=" * 67, b"--- trunk/file.c\t(revision 123)",
    b"+++ trunk/file.c\t(working copy)", b"@@ -1 +1 @@", b"-old", b"+new",
    b"\\ No newline at end of file", b"Property changes on: trunk/file.c",
    b"Added: svn:executable", b"## -0,0 +1 ##", b"RCS file: /cvs/f,v",
    b"retrieving revision 1.1", b"==== //depot/f#1 (text) ====",
    b"# HG changeset patch", b"# User A <a@example.com>",
    b"Only in a: x", b"Files a and b are identical",
    b"--- /dev/null", b"+++ b/new.txt", b"@@ -0,0 +1,2 @@", b"+one", b"+two",
]) + b"\n"
DIFFS.append(('vendor-phrases', VENDOR_DIFF))
DIFF_BY_NAME['vendor-phrases'] = VENDOR_DIFF
TEXTS.append(('commit-message', 'Fix bug #123: handle "quoted" paths\n\n'
              'Signed-off-by: A B <a@example.com>\nReviewed at '
              'https://example.com/r/1/\n * bullet\n\tTabbed\n'
              '--- not a diff\n+++ neither\n@@ nor this @@\n'
              'Binary files a and b differ\n'))
TEXT_BY_NAME['commit-message'] = TEXTS[-1][1]

# Unicode edge characters (combining mark, U+FEFF away from the start, the
# code points around the surrogate range and the planes' ends, NBSP) and
# whitespace shapes (tab, trailing blanks, whitespace-only lines)
TEXTS.append(('unicode-edges', 'e\u0301 x\ufeffy \ud7ff\ue000\ufffd\uffff'
              '\U00010000\U0010ffff\n\u00a0\n'))
TEXTS.append(('whitespace-shapes', 'a \n\tb\t\n \n\t\n  c  '))
TEXT_BY_NAME.update(dict(TEXTS[-2:]))


def special_chars():
    """Characters a text-handling library may treat specially, computed from
    the platform's Unicode database: every control character (Cc), every
    separator (Zs / Zl / Zp), everything str.splitlines() or str.split()
    breaks on, format characters (Cf) of the BMP, one character per
    normalisation behaviour (NFC / NFD / NFKC change it), the neighbours of
    the surrogate range and the ends of the planes."""
    import sys
    import unicodedata
    out = []
    for cp in range(0x3000 + 1):
        c = chr(cp)
        cat = unicodedata.category(c)
        if cat in ('Cc', 'Zs', 'Zl', 'Zp', 'Cf') or c.isspace() or \
                len(('a' + c + 'b').splitlines()) != 1:
            out.append(cp)
    out += [0xFEFF, 0xFFF9, 0xFFFA, 0xFFFB, 0xFFFC, 0xFFFD, 0xFFFE, 0xFFFF,
            0xD7FF, 0xE000, 0xF8FF, 0x10000, 0x1FFFF, 0xE0001, 0x10FFFF,
            0x1F600]
    # normalisation: a combining mark, a singleton (ANGSTROM SIGN), a
    # composition exclusion (DEVANAGARI QA), a compatibility ligature, a
    # precomposed letter, a Hangul syllable / jamo
    out += [0x0301, 0x212B, 0x0958, 0xFB01, 0x00E9, 0xAC00, 0x1100, 0x00DF,
            0x0130, 0x0131, 0x1E9E]
    seen = set()
    res = []
    for cp in out:
        if cp not in seen:
            seen.add(cp)
            res.append(cp)
    return res


SPECIAL_CHARS = special_chars()

# the structures the specification documents for metadata, in their
# degenerate forms: old == new pairs, zero counts, tuples (which json
# writes as arrays) holding dicts with unsorted keys
METAS.append(('degenerate-pairs', {
    'path': {'old': 'src/a.c', 'new': 'src/a.c'},
    'revision': {'old': 'abc123', 'new': 'abc123'},
    'unix file mode': {'old': '0100644', 'new': '0100644'},
    'symlink target': {'old': 't', 'new': 't'},
    'stats': {'insertions': 0, 'deletions': 0, 'lines changed': 0,
              'files': 0, 'changes': 0},
    'op': 'modify', 'type': 'file'}))
METAS.append(('tuples', {'r': ({'b': 1, 'a': 2},),
                         't': (1, (2, {'z': 0, 'y': [(), ({'q': 1, 'p': 2},)]})),
                         'e': ()}))
META_BY_NAME.update(dict(METAS[-2:]))

# values that have several textual spellings of the same meaning (a library
# that "normalises" rewrites them): timestamps, numbers and booleans as
# strings, paths, hashes, URLs, e-mail addresses -- under the key names the
# specification documents
METAS.append(('spellings', {
    'date': '2021-06-01T19:26:31Z',
    'author date': '2021-06-01 19:26:31-0700',
    'committer date': '2021-06-01t19:26:31.5+00:00',
    'time': '20210601T192631Z', 'day': '2021-06-01', 'epoch': 1622575591,
    'version': '1.0', 'n': '007', 'f': '1e3', 'h': '0x1F', 'b': 'True',
    'yes': 'yes', 'none': 'null', 'float': 1.0, 'exp': 1e+22, 'neg0': -0.0,
    'path': './a//b/../c/', 'win': 'C:\\dir\\f.txt', 'tilde': '~/x',
    'id': 'ABCDEF0123abcdef', 'url': 'HTTP://Example.COM/%7Euser?q=a+b',
    'author': 'A.B@Example.COM', 'ws': ' padded ', 'tab': 'a\tb',
    'nl': 'line\r\n', 'uni': 'e\u0301 \u212b', 'empty': '',
    'revision': {'old': '00000000', 'new': '0'}}))
META_BY_NAME['spellings'] = METAS[-1][1]

# line structure mixtures: a dos text with bare-LF lines that are followed
# by blanks, lone CRs followed by blanks, a text that starts with LF and
# ends in a lone CR, blank-only lines
TEXTS.append(('mixed-indented', 'a\r\nb\n  c\r\n d\r e\r\n'))
TEXTS.append(('lf-first-cr-last', '\nx\r'))
TEXTS.append(('blank-lines-only', '\n  \n\n'))
TEXT_BY_NAME.update(dict(TEXTS[-3:]))

# key ORDER: keys whose order differs between code points, UTF-16 code
# units, UTF-8 bytes, case-folded, numeric and length-first comparisons
METAS.append(('key-order', {
    '\uff21': 1, '\U0001f600': 2, '\ue000': 3, '\ufffd': 4, '\U00010000': 5,
    '\ud7ff': 6, 'Z': 7, 'a': 8, 'A': 9, 'z': 10, '10': 11, '9': 12, '': 13,
    'a!': 14, 'ab': 15, 'a b': 16, '\u00e9': 17, 'e\u0301': 18, '_': 19,
    '-': 20, 'nested': {'\U0001f600': 1, '\uff21': 2, 'b': 3, 'B': 4}}))
# counts that do not add up (a producer counting a replaced line once):
# metadata is data, nobody recomputes it on the way through
METAS.append(('inconsistent-stats', {
    'stats': {'insertions': 2, 'deletions': 3, 'lines changed': 3,
              'files': 7, 'changes': 0, 'total': -1},
    'path': 'f'}))
META_BY_NAME.update(dict(METAS[-2:]))
