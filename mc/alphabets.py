"""Alphabets, simplest first. Each element is there for a reason (DESIGN 3.3)."""

LONG = 'L' * 230 + '\n'

# (name, text). 'misaligned' marks texts whose UTF-16 bytes contain a
# misaligned newline byte pattern (excluded where byte-level and text-level
# line splitting legitimately differ).
TEXTS = [
    ('a-nonl', 'a'),
    ('a', 'a\n'),
    ('crlf', 'a\r\n'),
    ('dos-then-unix', 'a\r\nb\n'),
    ('unix-then-dos', 'a\nb\r\n'),
    ('lf-only', '\n'),
    ('crlf-only', '\r\n'),
    ('lone-cr', 'a\rb\n'),
    ('indented', ' a\n  b\n     c\n'),
    ('hdr-change', '#.change:\n'),
    ('hdr-diffx', '#diffx: version=1.0\nx\n'),
    ('hdr-diff', 'x\n#...diff: length=1\n'),
    ('hunk', '@@ -1 +1 @@\n-x\n+y\n'),
    ('bomchar', '\ufeffa\n'),
    ('nul', 'a\x00b\n'),
    ('latin', 'é\n'),
    ('emoji', '😀\n'),
    ('splitlines-chars', 'a\x0bb\x0cc\x1cd\x85e\u2028f\n'),
    ('blank-lines', 'a\n\n\nb'),
    ('long', LONG),
    ('misaligned', '\u0a41\u4100\n'),
]
TEXT_BY_NAME = dict(TEXTS)

METAS = [
    ('simple', {'a': 'x'}),
    ('nested', {'k': {'sub': [1, 'two', {'three': None}]}, 'z': 'é'}),
    ('sortkeys', {'b': 1, 'a': 2, 'B': 3, 'é': 4, 'aa': 5}),
    ('strings', {'s': 'line1\nline2', 't': 'é ', 'h': '#.change:',
                 'q': 'a"b\\c\x7f'}),
    ('consts', {'n': None, 't': True, 'f': False}),
    ('numbers', {'big': 12345678901234567890123, 'neg': -7, 'fl': 2.5}),
    ('empties', {'l': [], 'd': {'e': {}}, 's': ''}),
    ('emoji', {'😀': '😀'}),
    # unsorted insertion order at every nesting level, incl. dicts inside
    # lists inside dicts (canonical form must sort them all)
    ('deep-unsorted', {'z': [{'source': 's', 'dest': 'd', 'bytes': 3},
                             [{'b': 1, 'a': 2}]],
                       'a': {'y': {'q': 1, 'p': [{'n': 1, 'm': 2}]}}}),
]
META_BY_NAME = dict(METAS)

DIFFS = [
    ('a', b'a\n'),
    ('a-nonl', b'a'),
    ('crlf', b'a\r\nb\r\n'),
    ('mixed', b'a\r\nb\n'),
    ('unix-then-dos', b'a\nb\r\n'),
    ('binary', b'\x00\xff\xfe\n\x80'),
    ('hdr', b'#..file:\n#...diff: length=3\n'),
    ('real', b'--- a\n+++ b\n@@ -1 +1,2 @@\n-x\n+y\n+z\n'),
    ('lf-only', b'\n'),
    ('utf16', 'a\r\nb\n'.encode('utf-16')),
    ('utf16le-nonl', 'x'.encode('utf-16-le')),
]
DIFF_BY_NAME = dict(DIFFS)

ENCODINGS = [None, 'utf-8', 'utf-16', 'utf-16-le', 'utf-16-be', 'utf-32',
             'utf-32-be', 'latin-1', 'ascii']
SCOPE_ENCODINGS = [None, 'utf-8', 'utf-16', 'utf-32-be', 'latin-1']
DIFF_ENCODINGS = [None, 'utf-8', 'utf-16', 'utf-16-le', 'utf-32', 'latin-1']
INDENTS = [4, 0, 1, 7]
LINE_ENDINGS = [None, 'unix', 'dos']
MIMETYPES = [None, 'text/plain', 'text/markdown']
DIFF_TYPES = [None, 'text', 'binary']


def encodable(text, codec):
    try:
        text.encode(codec)
        return True
    except (UnicodeEncodeError, LookupError):
        return False


def misaligned(text_or_bytes, codec):
    """True if byte-level search for the codec's LF finds an occurrence
    that is not aligned to the codec's code unit."""
    from mc.spec import nl, signature
    if codec is None:
        return False
    u = nl('unix', codec)
    if len(u) == 1:
        return False
    if isinstance(text_or_bytes, str):
        try:
            data = text_or_bytes.encode(codec)[len(signature(codec)):]
        except UnicodeEncodeError:
            return False
    else:
        data = text_or_bytes
        sig = signature(codec)
        if sig and data.startswith(sig):
            data = data[len(sig):]
    i = data.find(u)
    while i != -1:
        if i % len(u):
            return True
        i = data.find(u, i + 1)
    # a CR unit straddling is irrelevant: CRLF ends with LF
    return False
