"""Model self-test run by setup.sh (extended as models are added)."""
import sys
from mc import spec

def main():
    spec.selfcheck_light()
    print('selftest ok')

if __name__ == '__main__':
    main()
