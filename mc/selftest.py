"""Self-test of the reference models, run by setup.sh before any check is
trusted. Uses no pydiffx code: the models are validated against the
specification document, the specification's example files, literals copied
from the repository's test-suite, the standard library's json module and
their own mutual consistency."""
import glob
import json
import os
import sys

from mc import spec, gen
from mc.alphabets import METAS, TEXTS, DIFFS


def check(cond, what):
    if not cond:
        print('SELFTEST FAILED: %s' % what)
        sys.exit(1)


def main():
    # 1. automaton == state tree of the document (+ the one documented edge)
    spec.selfcheck_light()

    # 2. the 7 example files are accepted by the strict parser and contain
    #    only legal, well-ordered sections
    ex = sorted(glob.glob(os.path.join(spec.REPO, 'docs', 'spec',
                                       'example-diffs', '*.diff')))
    check(len(ex) >= 7, 'spec example files present')
    for p in ex:
        recs, err = spec.parse(open(p, 'rb').read())
        check(err is None, 'reference parser accepts %s (%s)'
              % (os.path.basename(p), err and err.why))
        check(recs and recs[0]['section'] == 'diffx', 'main section first')

    # 3. literal copied from tests/test_writer.py::test_with_content_utf16
    calls = [['preamble', 'this is a test\n', None, 4, None, None],
             ['change', None], ['file', None],
             ['meta', {'key': 'value'}, None],
             ['diff', ' ... diff\r\n'.encode('utf-16'), None, 'utf-16',
              None]]
    want = (
        b'#diffx: encoding=utf-16, version=1.0\n'
        b'#.preamble: indent=4, length=36, line_endings=unix\n'
        b'    \xff\xfet\x00h\x00i\x00s\x00 \x00i\x00s\x00 \x00a\x00 '
        b'\x00t\x00e\x00s\x00t\x00\n\x00'
        b'#.change:\n'
        b'#..file:\n'
        b'#...meta: format=json, length=48\n'
        b'\xff\xfe{\x00\n\x00 \x00 \x00 \x00 \x00"\x00k\x00e\x00y\x00'
        b'"\x00:\x00 \x00"\x00v\x00a\x00l\x00u\x00e\x00"\x00\n\x00}\x00'
        b'\n\x00'
        b'#...diff: encoding=utf-16, length=24, line_endings=dos\n'
        b'\xff\xfe \x00.\x00.\x00.\x00 \x00d\x00i\x00f\x00f\x00'
        b'\r\x00\n\x00')
    got, recs = spec.serialize(calls, 'utf-16')
    check(got == want, 'serializer reproduces the suite\'s UTF-16 literal')

    # 4. serializer and parser agree with each other on every alphabet entry
    for name, text in TEXTS:
        if name == 'misaligned':
            continue
        for enc in ('utf-8', 'utf-16', 'utf-32-be'):
            for indent in (0, 4, 1):
                for le in (None, 'dos'):
                    try:
                        text.encode(enc)
                    except UnicodeEncodeError:
                        continue
                    calls = [['preamble', text, enc, indent, le, None],
                             ['change', None], ['file', None],
                             ['meta', {'a': 'x'}, None]]
                    data, recs = spec.serialize(calls, 'utf-8')
                    precs, err = spec.parse(data)
                    check(err is None, 'parse(serialize(%s,%s,%s,%s)): %s'
                          % (name, enc, indent, le, err and err.why))
                    check([r.get('text') for r in precs] ==
                          [r.get('text') for r in recs] and
                          [r['line'] for r in precs] ==
                          [r['line'] for r in recs],
                          'records agree for %s/%s/%s/%s'
                          % (name, enc, indent, le))
    for name, obj in METAS:
        # own pretty printer == the standard library's canonical form
        check(spec.json_pretty(obj) == json.dumps(
            obj, indent=4, separators=(',', ': '), sort_keys=True),
            'json_pretty(%s)' % name)
    for name, d in DIFFS:
        for enc in (None, 'utf-16'):
            calls = [['change', None], ['file', None],
                     ['meta', {'a': 'x'}, None], ['diff', d, None, enc,
                                                  None]]
            data, recs = spec.serialize(calls, 'utf-8')
            # length framing is self-consistent
            check(data.endswith(recs[-1]['diff']), 'diff %s framed' % name)

    # 5. generator: canonical rendering == serializer output; every defect
    #    it produces is rejected by the strict parser
    calls = [['preamble', 'a\r\nb\r\n', None, 2, 'dos', None],
             ['meta', {'k': 'é'}, 'utf-16'], ['change', 'latin-1'],
             ['file', None], ['meta', {'p': 'q'}, None],
             ['diff', b'x\n', 'text', None, None]]
    data, recs = spec.serialize(calls, 'utf-8')
    secs = gen.from_calls(calls, 'utf-8')
    rdata, rrecs = gen.render(secs)
    check(rdata == data, 'generator renders canonical bytes')
    n = 0
    for label, si, f in gen.defects(secs):
        s2 = [s.clone() for s in secs]
        if f(s2) is False:
            continue
        ddata, _ = gen.render_defective(s2)
        precs, err = spec.parse(ddata)
        check(err is not None, 'defect %s@%d is rejected by the reference'
              % (label, si))
        n += 1
    check(n > 30, 'defect catalogue non-trivial (%d)' % n)
    print('selftest ok (%d example files, %d defects)' % (len(ex), n))


if __name__ == '__main__':
    main()
