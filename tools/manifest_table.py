TRUST = "CPython 3.12 codecs/re/json/io as installed; reference models in mc/spec.py (bound to docs/spec/section-format.rst at start-up); alphabets and bounds as stated in the evidence"
CHECKS = {
 'C09': ("exhaustive enumeration of all call sequences up to length 7/9 on a real DiffXWriter (no state merging) plus hostile-argument variants from every state of the closed writer state graph with all continuations of length <= 2; oracle = hierarchy automaton + byte/state atomicity + differential replay without the rejected calls",
         "Acceptance is a language over call histories: all 5^k histories are run and compared with the automaton parsed from the spec; atomicity is checked on every rejecting call by comparing stream bytes, frozen writer state and all short continuations with a writer that never saw the call.",
         TRUST, "DESIGN.md 5 C09"),
 'C10': ("exhaustive enumeration of section-id sequences (every legal prefix up to length 12/16 x 30 successor ids) read by the real DiffXReader, plus explicit-state closure of the frozen reader state; oracle = hierarchy automaton",
         "The accepted language is compared with the automaton on every sequence up to the bound; closure of the reader state graph extends the claim to longer sequences.",
         TRUST, "DESIGN.md 5 C10"),
 'C14': ("bounded exhaustive enumeration of generated hunk sequences with known geometry, all single-point damages, and all line lists up to 5/6 lines over a 14-line alphabet, executed on the real parser and compared with an independent strict reference",
         "Every generated input in scope is executed; geometry is compared field by field with a reference that is formulated differently (tokenise, strict counting, post-hoc geometry).",
         TRUST, "DESIGN.md 5 C14"),
 'C17': ("exhaustive enumeration of (file x first-header padding 0..197 x read-ahead block size) on the real reader over an instrumented stream (block size injected via a subclass overriding _read_until's default); oracle = records of the unpadded file + stream discipline + byte accounting",
         "Every alignment of every later header relative to every block size in scope is executed; a seek-back slip at one offset cannot hide.",
         TRUST, "DESIGN.md 5 C17"),
 'C01': ("explicit-state exploration of the real writer+reader (frozen-object state graph, closed) x exhaustive per-call argument products, plus deviation-bounded whole-file enumeration; every execution compared with by-construction expectations",
         "Every reachable canonical writer/reader state x every content call x every argument tuple in scope is executed on the real code and read back; whole files with <=2/3 non-default arguments anywhere are enumerated completely.",
         TRUST, "DESIGN.md 5 C01"),
 'C02': ("same exploration as C01 (state graph x argument products + deviation-bounded files); bytes compared with an independent spec-derived serializer and walked by an independent validator",
         "Every explored execution's output is compared byte for byte with mc/spec.serialize and validated structurally (grammar, option order, ids, lengths, newline, indent, canonical JSON).",
         TRUST, "DESIGN.md 5 C02"),
 'C04': ("explicit-state BFS over container/content events on real DiffXWriter+DiffXReader objects (state = frozen vars + generator locals), to closure, plus an unmerged exhaustive history pass; each transition checked writer-alone, reader-alone and writer->reader against the declarative nearest-ancestor rule",
         "All histories of scope pushes/pops are covered by graph closure (63 states per root) and, independently, by every legal history up to depth 7/9 executed without merging.",
         TRUST, "DESIGN.md 5 C04"),
 'C16': ("bounded exhaustive enumeration of inputs (all byte strings over a 5-letter alphabet up to the stated length x 10 newline sequences) executed on the real split_lines and compared with a naive reference scanner",
         "Every (string, newline) pair inside the stated scope is executed; the four laws are checked on each and the result is compared with an independent scanner. A coverage statement, not a sample.",
         TRUST, "DESIGN.md 5 C16"),
}
NOT_BUILT = "check not built yet in this round (planned: DESIGN.md section 5); no claim is made"
NA = {('C%02d' % i): NOT_BUILT for i in range(1, 21) if ('C%02d' % i) not in CHECKS}
