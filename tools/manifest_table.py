TRUST = "CPython 3.12 codecs/re/json/io as installed; reference models in mc/spec.py (bound to docs/spec/section-format.rst at start-up); alphabets and bounds as stated in the evidence"
CHECKS = {
 'C16': ("bounded exhaustive enumeration of inputs (all byte strings over a 5-letter alphabet up to the stated length x 10 newline sequences) executed on the real split_lines and compared with a naive reference scanner",
         "Every (string, newline) pair inside the stated scope is executed; the four laws are checked on each and the result is compared with an independent scanner. A coverage statement, not a sample.",
         TRUST, "DESIGN.md 5 C16"),
}
NOT_BUILT = "check not built yet in this round (planned: DESIGN.md section 5); no claim is made"
NA = {('C%02d' % i): NOT_BUILT for i in range(1, 21) if ('C%02d' % i) not in CHECKS}
