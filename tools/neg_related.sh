#!/bin/sh
# related quick checks for the second batch of negative controls
cd "$(dirname "$0")/.."
run() { p=$1; shift; echo "== $p: $*"; tools/try_patch.sh negative/$p.diff "$@" | cut -c1-220; }
run neg13 C17 C11 C10 C03 C08
run neg14 C07 C03 C08
run neg15 C01 C02 C04 C15
run neg16 C01 C02 C09
run neg17 C16 C03
run neg18 C14 C13
run neg19 C13 C18
run neg20 C19 C18
run neg21 C05 C06 C18
run neg22 C11 C12 C10 C08
run neg23 C20
run neg24 C18 C15 C09 C19 C16
