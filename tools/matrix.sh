#!/bin/sh
# tools/matrix.sh [patch files...]  -- run every quick check against every patch (scratch copies), print a table.
# Output lines:  <patch> : detected-by C01 C04 ... | silent C02 ...
cd "$(dirname "$0")/.."
IDS="C01 C02 C03 C04 C05 C06 C07 C08 C09 C10 C11 C12 C13 C14 C15 C16 C17 C18 C19 C20"
[ $# -gt 0 ] || set -- mutants/*.diff seeded/*/patch.diff seeded/*/patch.rebased.diff
for P in "$@"; do
  [ -f "$P" ] || continue
  D="$(mktemp -d /tmp/mx-XXXXXX)"
  cp -r /repo/python /repo/docs "$D"/
  if ! ( cd "$D" && patch -s -p1 < "$OLDPWD/$P" >/dev/null 2>&1 ); then
    echo "$P : PATCH-FAILED"; rm -rf "$D"; continue
  fi
  det=""; sil=""; err=""
  for id in $IDS; do
    VERIF_REPO="$D" VERIF_NO_REVALIDATE=1 ./check "$id" --tier quick --no-evidence >/dev/null 2>&1; rc=$?
    case $rc in 0) sil="$sil $id";; 1) det="$det $id";; *) err="$err $id(rc=$rc)";; esac
  done
  echo "$P : detected-by$det | harness-error$err"
  rm -rf "$D"
done
rm -f replays/*.json
