#!/bin/sh
# tools/matrix.sh [patch files...]  -- run the quick checks related to the files a patch touches
# (plus the seed's own property) against a scratch copy with the patch applied.
# env: ALL=1 every check; OWN_ONLY=1 only the seed's own check; ONLY_IDS="C05 C08" exactly these.
# Output lines:  <patch> : detected-by C01 C04 ... | harness-error ... | silent ...
cd "$(dirname "$0")/.."
[ $# -gt 0 ] || set -- mutants/*.diff seeded/*/patch.diff seeded/*/patch.rebased.diff
for P in "$@"; do
  [ -f "$P" ] || continue
  IDS=""
  grep -q "pydiffx/reader.py" "$P" && IDS="$IDS C01 C03 C04 C05 C06 C07 C08 C10 C11 C12 C15 C17"
  grep -q "pydiffx/writer.py" "$P" && IDS="$IDS C01 C02 C04 C05 C06 C09 C15"
  grep -q "utils/text.py" "$P" && IDS="$IDS C01 C02 C03 C05 C06 C07 C08 C13 C15 C16"
  grep -q "unified_diffs.py" "$P" && IDS="$IDS C13 C14"
  grep -q "pydiffx/dom/" "$P" && IDS="$IDS C05 C06 C08 C13 C18 C19"
  grep -q "pygments_lexer.py" "$P" && IDS="$IDS C20"
  grep -q "pydiffx/sections.py" "$P" && IDS="$IDS C01 C09 C10"
  [ -n "$ALL" ] && IDS="C01 C02 C03 C04 C05 C06 C07 C08 C09 C10 C11 C12 C13 C14 C15 C16 C17 C18 C19 C20"
  own="$(echo "$P" | sed -n 's#.*seeded/\(C[0-9]*\)-.*#\1#p')"
  [ -n "$OWN_ONLY" ] && [ -n "$own" ] && IDS=""
  [ -n "$ONLY_IDS" ] && { IDS="$ONLY_IDS"; own=""; }
  IDS="$(echo $IDS $own | tr ' ' '\n' | sort -u | tr '\n' ' ')"
  D="$(mktemp -d /tmp/mx-XXXXXX)"
  cp -r /repo/python /repo/docs "$D"/
  if ! ( cd "$D" && patch -s -p1 --dry-run < "$OLDPWD/$P" >/dev/null 2>&1 ); then
    BASE="$(cat "${P%.diff}.base" 2>/dev/null || sed -n 's/.*"base": "\([0-9a-f]\{7,40\}\)".*/\1/p' "$(dirname "$P")/meta.json" 2>/dev/null | head -1)"
    if [ -n "$BASE" ]; then
      rm -rf "$D"; mkdir -p "$D"
      git -C /repo archive "$BASE" python docs | tar -x -C "$D"
    fi
  fi
  if ! ( cd "$D" && patch -s -p1 < "$OLDPWD/$P" >/dev/null 2>&1 ); then
    echo "$P : PATCH-FAILED"; rm -rf "$D"; continue
  fi
  det=""; sil=""; err=""
  for id in $IDS; do
    VERIF_REPO="$D" VERIF_NO_REVALIDATE=1 ./check "$id" --tier quick --no-evidence >/dev/null 2>&1; rc=$?
    case $rc in 0) sil="$sil $id";; 1) det="$det $id";; *) err="$err $id(rc=$rc)";; esac
  done
  echo "$P : detected-by$det | harness-error$err | silent$sil"
  rm -rf "$D"
done
rm -f replays/*.json
