#!/bin/sh
# run every (or the named) thorough check once, print one summary line each (used with vp run)
cd "$(dirname "$0")/.."
[ $# -gt 0 ] || set -- C16 C14 C10 C17 C15 C19 C12 C07 C09 C04 C18 C11 C13 C20 C08 C05 C03 C01 C02 C06
for id in "$@"; do
  /usr/bin/time -f "$id wall %es" ./check $id --tier thorough --no-evidence 2>&1 | grep -v "^  \|^KNOWN" | tail -4
done
