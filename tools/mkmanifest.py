#!/usr/bin/env python3
"""Regenerate MANIFEST.json from the table below (python3 tools/mkmanifest.py)."""
import json, os
ROOT = os.path.dirname(os.path.dirname(os.path.abspath(__file__)))
BASE_OFF = ("cd /repo && env -u PYDIFFX_VERIF /venv/bin/python -m pytest -ra -q "
            "-p no:cacheprovider --timeout=900 --continue-on-collection-errors")

CHECKS = {}   # id -> (technique, level text, level note, design ref)
NA = {}       # id -> reason

def load():
    g = {}
    exec(open(os.path.join(ROOT, 'tools', 'manifest_table.py')).read(), g)
    return g['CHECKS'], g['NA']

def main():
    checks, na = load()
    m = {
        "version": 1,
        "setup_cmd": "./setup.sh",
        "hooks": {
            "guard": "PYDIFFX_VERIF",
            "enable": "no source hooks exist: checks import pydiffx straight from /repo/python (PYTHONPATH) and observe it through the public API, vars(), generator frames, subclasses and wrapper streams; ./check exports PYDIFFX_VERIF=1 for uniformity only",
            "baseline_off_cmd": BASE_OFF,
            "source_commits": [],
            "add_only": True,
        },
        "engines": [{
            "name": "mc", "path": "mc/",
            "serves_properties": sorted(checks),
            "kind_free_text": "hand-written explicit-state / bounded-exhaustive explorer in Python that executes the real pydiffx code on every enumerated history, input or fault and compares with independent reference models (mc/spec.py)",
        }],
        "checks": [],
        "not_applicable": [{"property_id": k, "reason": v} for k, v in sorted(na.items())],
        "notes": "See DESIGN.md. All checks: ./check <ID> --tier quick|thorough; replay: ./check <ID> --replay <file>.",
    }
    for pid in sorted(checks):
        tech, text, note, ref = checks[pid]
        m["checks"].append({
            "property_id": pid,
            "quick_cmd": "./check %s --tier quick" % pid,
            "thorough_cmd": "./check %s --tier thorough" % pid,
            "evidence_file": "evidence/%s.json" % pid,
            "replay_cmd_template": "./check %s --replay {path}" % pid,
            "engine": "mc",
            "level_claimed": {"category": "model_checking", "text": text, "design_ref": ref},
            "level_note": note,
            "technique": tech,
        })
    with open(os.path.join(ROOT, 'MANIFEST.json'), 'w') as f:
        json.dump(m, f, indent=1)
        f.write('\n')

if __name__ == '__main__':
    main()
