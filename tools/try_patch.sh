#!/bin/sh
# tools/try_patch.sh <patch.diff> <ID> [ID...]   (env TIER=quick|thorough)
# Applies a patch to a scratch copy of /repo (never /repo itself), runs the
# named checks against it via VERIF_REPO, prints a one-line verdict per
# check and removes the copy.
P="$(readlink -f "$1")"; shift
D="$(mktemp -d /tmp/mut-XXXXXX)"
mkdir -p "$D"
cp -r /repo/python /repo/docs "$D"/
if ! ( cd "$D" && patch -s -p1 --dry-run < "$P" >/dev/null 2>&1 ); then
  # written against an earlier commit of /repo? (recorded in meta.json)
  BASE="$(cat "${P%.diff}.base" 2>/dev/null || sed -n 's/.*"base": "\([0-9a-f]\{7,40\}\)".*/\1/p' "$(dirname "$P")/meta.json" 2>/dev/null | head -1)"
  if [ -n "$BASE" ]; then
    rm -rf "$D"; mkdir -p "$D"
    git -C /repo archive "$BASE" python docs | tar -x -C "$D"
  fi
fi
( cd "$D" && patch -s -p1 < "$P" ) || { echo "PATCH-FAILED $P"; rm -rf "$D"; exit 3; }
cd "$(dirname "$0")/.."
for id in "$@"; do
  out="$(VERIF_REPO="$D" ./check "$id" --tier "${TIER:-quick}" --no-evidence 2>&1)"; rc=$?
  nv="$(printf '%s\n' "$out" | grep -c '^VIOLATION')"
  echo "$id rc=$rc violations=$nv :: $(printf '%s\n' "$out" | grep -m1 'key=' | cut -c1-160)"
  [ -n "$VERBOSE" ] && printf '%s\n' "$out" | tail -${VERBOSE}
done
rm -rf "$D"
rm -f replays/*.json
