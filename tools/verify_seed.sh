#!/bin/sh
# tools/verify_seed.sh <name e.g. C09-a>  -- confirm a sub-agent's seeded change in a fresh scratch worktree:
#   demo passes on clean HEAD; patch applies; suite passes with patch; demo fails with patch.
# On success copies patch.diff/demo.py/notes.md into /verif/seeded/<name>/ and prints a JSON verdict line.
N="$1"; SRC="/tmp/seed-out/$N"
WT="$(mktemp -d /tmp/vs-XXXXXX)"; rmdir "$WT"
git -C /repo worktree add -q --detach "$WT" HEAD || exit 3
clean() { git -C /repo worktree remove --force "$WT" 2>/dev/null; rm -rf "$WT"; }
cd "$WT"
PYTHONPATH="$WT/python" /venv/bin/python "$SRC/demo.py" >/dev/null 2>&1; d0=$?
if ! git apply "$SRC/patch.diff" 2>/dev/null; then
  patch -s -p1 < "$SRC/patch.diff" || { echo "{\"name\":\"$N\",\"error\":\"patch does not apply\"}"; clean; exit 3; }
fi
find . -name '*.orig' -delete
git diff > "$WT/.rebased.diff"
suite="$(/venv/bin/python -m pytest -q -p no:cacheprovider --timeout=900 2>&1 | tail -1)"
PYTHONPATH="$WT/python" /venv/bin/python "$SRC/demo.py" >/dev/null 2>&1; d1=$?
ok=false
case "$suite" in *"176 passed"*) [ "$d0" = 0 ] && [ "$d1" != 0 ] && ok=true;; esac
echo "{\"name\":\"$N\",\"demo_clean_rc\":$d0,\"demo_patched_rc\":$d1,\"suite\":\"$suite\",\"confirmed\":$ok}"
if $ok; then
  mkdir -p "/verif/seeded/$N"
  cp "$WT/.rebased.diff" "/verif/seeded/$N/patch.diff"
  cp "$SRC/demo.py" "/verif/seeded/$N/demo.py"
  [ -f "$SRC/notes.md" ] && cp "$SRC/notes.md" "/verif/seeded/$N/notes.md"
fi
cd /; clean
