#!/usr/bin/env python3
"""Print the 'measured sizes' table for DESIGN.md 12.2b from evidence/*.json."""
import glob
import json
import os

ROOT = os.path.dirname(os.path.dirname(os.path.abspath(__file__)))
print('| id | tier | units | executions | states | transitions | -O pass '
      '(executions) | distinct outcomes | known findings | wall |')
print('|----|------|------:|-----------:|-------:|------------:|'
      '-------------:|---:|---:|-----:|')
for p in sorted(glob.glob(os.path.join(ROOT, 'evidence', 'C*.json'))):
    e = json.load(open(p))
    c = e['coverage']
    o = c.get('alt_interpreter_pass') or {}
    print('| %s | %s | %d | %s | %s | %s | %s | %d | %d | %.0f s |' % (
        e['property_id'], e['tier'], c.get('units_total', 0),
        format(c.get('evaluations', 0), ','), format(c['states'], ','),
        format(c['transitions'], ','),
        format(o.get('evaluations', 0), ',') if o else '-',
        c.get('distinct_outcomes', 0), len(c.get('known_findings_hit', [])),
        e.get('wall_s', 0)))
