#!/usr/bin/env python3
"""Write seeded/<name>/meta.json from the table below plus a matrix log
(tools/matrix.sh output):  python3 tools/seed_meta.py <matrix.log> [...]"""
import json
import os
import re
import sys

ROOT = os.path.dirname(os.path.dirname(os.path.abspath(__file__)))

# name -> (property, what the change is, what it needs to manifest)
SEEDS = {
 'C09-a': ('C09', "_prev_section is updated right after order validation, before content preparation; a content call that then fails while encoding (unencodable text, unknown codec) leaves _prev_section naming a section that was never written",
           "a rejected in-order content call that fails at encode time, followed by at least one further call whose acceptance depends on the previous section"),
 'C13-a': ('C13', "generate_stats() made to return the computed stats; change/top-level sums use the return value (None for unanalysed files) instead of re-reading file.meta['stats']",
           "a change containing a binary / empty / absent / unparsable diff whose metadata already carries insertions/deletions, then generate_stats() on the change or tree"),
 'C14-a': ('C14', "'if first_changed_line is not None' became a truthiness test in hunk finalisation, so a first change at 0-based line 0 is ignored when computing lines_of_context_pre",
           "a hunk starting at line 1 on one side with a change on its very first body line while the other side's first change comes after >= 1 context line"),
 'C16-a': ('C16', "split_lines removes the artificial last line ending with bytes.rstrip(newline) (a byte SET), eating trailing CR/LF/NUL data bytes",
           "keep_ends=True, data not ending in the newline, last data byte belongs to the newline sequence (CRLF data ending in lone CR; UTF-16/32 text without trailing newline)"),
 'C17-a': ('C17', "_read_until rewritten with a fast path and a multi-chunk slow path that trims with chunk[:-extra]; extra == 0 drops the whole last chunk",
           "a header longer than one read-ahead block whose newline is the last byte of the chunk that holds it (length a multiple of the block size, or last line of the file)"),
 'C18-a': ('C18', "DiffXDOMWriter caches bound write methods of the first streaming DiffXWriter per instance",
           "one DiffXDOMWriter object used for two write_stream() calls; the second goes to the first stream or raises a section-order error"),
 'C19-a': ('C19', "options comparison moved from BaseDiffXSection.__eq__ to the content-section __eq__; container sections no longer compare their own options",
           "two trees differing only in a container's own encoding (or the root's version) compare equal yet serialise differently"),
 'C20-a': ('C20', "git-binary rule rewritten as (delta|literal) (\\d+)(\\n) with the space outside any capture group; bygroups drops it",
           "a '#...diff:' section whose content begins with 'delta N\\n' or 'literal N\\n'"),
 'C01-b': ('C01', "writer computes a new container's inherited encoding before popping the sections it closes, so a container without 'encoding' inherits from the previous sibling / last file of the previous change",
           "a change or file with an encoding override followed by a sibling container without one whose preamble/meta relies on inheritance, with encodings that differ on the content"),
 'C02-b': ('C02', "stack maintenance 'simplified' to a slice assignment whose right-hand side reads _cur_encoding from the old stack top",
           "new_change()/new_file() without encoding after a sibling that declared one; output still parses with the library's reader but content is encoded in the stale sibling's encoding"),
 'C03-b': ('C03', "split_lines pops the trailing blank entry before re-adding line ends and drops the 'strip the artificial end' branch, so an unterminated last line gains a newline (keep_ends=True)",
           "an indented content section that lacks its final newline: content is rebuilt from the split lines, the invented newline passes the check (only on the tree before fix c5c7a8d; afterwards the raw check rejects it, the split_lines law violation remains)"),
 'C04-b': ('C04', "reader reuses the encoding-stack slot of a level instead of unwinding; going from a file back up to a change leaves the old file's slot on top",
           ">= 2 changes, the last file of the earlier one resolving to a different encoding than the next change, whose preamble/meta has no encoding of its own"),
 'C05-b': ('C05', "reader unwinds the encoding stack only when moving UP a level; sibling transitions (file->file, change->change without files) no longer pop",
           "a change with two files where the first sets a file-level encoding and the second sets none; or a file-less change with an encoding followed by a change without one"),
 'C06-b': ('C06', "reader pops a single stack entry when level <= previous level (the pre-fix D1 behaviour re-introduced)",
           "an earlier change with an explicit encoding different from the main one, a later change without one whose preamble has non-ASCII text"),
 'C07-b': ('C07', "final-newline check rewritten as content.rstrip(newline) == content (rstrip strips a byte set)",
           "CRLF content cut between CR and LF, or a length one byte too small ending on CR; (patch.rebased.diff applies the same slip to the raw pre-indentation check added by fix c5c7a8d)"),
 'C08-b': ('C08', "DOM loader applies main-header options with setattr() instead of options.update(); DiffX uses __slots__",
           "an unknown option key on the '#diffx:' line: AttributeError escapes DiffX.from_bytes/from_stream"),
 'C10-b': ('C10', "'...diff' handling moved to a fast path ending in 'yield; continue', skipping the valid_sections update",
           "the full prefix diffx,.change,..file,...meta,...diff followed by another ...diff (accepted)"),
 'C11-b': ('C11', "value class rewritten as [A-Za-z0-9_.-/] (range '.-/' drops the literal '-')",
           "a value whose first character is '-' (only on the tree before fix a63b01d; see meta 'base')"),
 'C12-b': ('C12', "integer conversion replaced by value.isdigit()",
           "an unknown option with a negative integer value (x-offset=-12) stays a string"),
 'C15-b': ('C15', "strip_bom uses data.lstrip(bom) for every candidate BOM (byte set) instead of a prefix check",
           "exact spelling utf-32-be: the BOM-free newline 00 00 00 0A is reduced to 0A"),
 'C01-c': ('C01', "split_lines only accepts newline matches aligned to the newline's own width for multi-byte newlines",
           "multi-line UTF-16/32 preamble with an indent that is not a multiple of the character width (reader splits indented bytes)"),
 'C02-c': ('C02', "sort_keys=True replaced by a hand-written _normalize_meta() that recurses into dict values but not into lists",
           "metadata containing a list that holds a dict with >= 2 keys in non-sorted insertion order"),
 'C03-c': ('C03', "_read_content early return for content without encoding, indent and declared line_endings: no first-line detection, lines counted by LF",
           "undeclared CRLF content with a bare LF inside (following sections' line numbers too large) or ending in bare LF (defect accepted)"),
 'C05-c': ('C05', "DOM loader pops 'type' and assigns file.diff_type before _set_content_options(), which clears the options again",
           "a file with diff_type set, written then parsed: type is lost"),
 'C06-c': ('C06', "DOM writer normalises bare LF to CRLF in preamble text when line_endings=dos",
           "a preamble with explicit line_endings=dos containing a bare LF: canonical file not reproduced; foreign file not a fixed point"),
 'C07-c': ('C07', "_read_header parses an unterminated last line as a header instead of dropping it at EOF",
           "a file cut inside a '#.change:' / '#..file:' header that carries options: extra record with altered options, normal end"),
 'C08-c': ('C08', "guess_line_endings loops 'while i % char_width' over find() results and forgets that find() returns -1",
           "UTF-16/32 content without line_endings option where a newline byte pair occurs only at unaligned offsets: the reader never terminates"),
 'C09-c': ('C09', "new_change() pops the open file level itself before order validation / header encoding",
           "a rejected new_change() while a file is open; the next write_meta()/write_diff() is wrongly refused"),
 'C13-c': ('C13', "DiffXFileSection.generate_stats() returns early when the diff object is the one analysed last time and 'stats' exists",
           "generate_stats(), then an edit that keeps the diff object (stats overwritten, diff_encoding / line_endings changed), then generate_stats() again"),
 'C04-c': ('C04', "writer drops a 'redundant' encoding= from a change/file header when it equals the parent's, finding the parent one stack level too low for files",
           "main A, change overrides with B, a file explicitly declares A again, with A/B byte-incompatible for the content"),
 'C10-c': ('C10', "_read_header's blank-line loop became a tail call that forgets valid_sections; a header preceded by a blank line is only checked against the nine known ids",
           "any out-of-order legal id with at least one blank line in front of it"),
 'C11-c': ('C11', "options regex rewritten as (?:pair(?:, |$))+ and walked with finditer(): a trailing ', ' after the last pair is accepted",
           "at least one well-formed option followed by exactly ', ' at end of line"),
 'C12-c': ('C12', "known options looked up through a helper that ignores case and '-' vs '_'",
           "an unknown look-alike key (Length, INDENT, line-endings, Encoding) on a header lacking the real option or placed before it"),
 'C15-c': ('C15', "strip_bom falls back to testing all BOMs in order; BOM_UTF16_LE is a prefix of BOM_UTF32_LE",
           "the BOM-emitting UTF-32 codec spelled other than exactly 'utf-32'"),
 'C16-c': ('C16', "keep_ends=True path rewritten as a find() loop with 'while i > 0'",
           "data that starts with the newline sequence"),
 'C17-c': ('C17', "_read_until drops 'blank lines' at the front of a read-ahead chunk without checking that nothing was accumulated yet",
           "a header whose length before its newline is an exact non-zero multiple of the block size"),
 'C18-c': ('C18', "DOM loader assigns section.options = options or section.default_options (class-level dict handed out uncopied)",
           "a parsed content section whose header carries only length=, then an option set on it"),
 'C19-c': ('C19', "PreambleIndentOptionProperty.__set__ calls the parent (which stores) before rejecting negative values",
           "assigning a negative int to preamble indent: rejected, but the tree keeps it"),
 'C20-c': ('C20', "header-options pattern gained '\\r?' outside every capture group",
           "a header line ending in CRLF: the CR is dropped from the token stream"),
 'C01-d': ('C01', "reader reads content in 64 KiB blocks requesting min(length, block) instead of min(remaining, block)",
           "a content section of at least 65537 bytes (not a multiple of 65536) followed by more data"),
 'C03-d': ('C03', "_read_content walks content in 8192-byte blocks and counts a line once per block it spans",
           "a content section over 8192 bytes with a line straddling a block boundary, followed by another section: later line numbers too high"),
 'C05-d': ('C05', "DOM writer wraps the stream in a coalescing buffer; single writes >= 8192 bytes bypass it without flushing pending small writes",
           "a tree with one content body of at least 8192 bytes"),
 'C06-d': ('C06', "reader reads large content in 8192-byte blocks, trims the last block but never rewinds the stream",
           "a content section over 8192 bytes (not a multiple) followed by at least one more section"),
 'C08-d': ('C08', "_read_until stops after buffering 4096 bytes without a newline and returns eof=False; _read_header's assert then fails",
           "a first non-blank line of at least 4096 bytes without newline (or newline beyond the 43rd block)"),
 'C09-d': ('C09', "fast path for diffs >= 64 KiB skips _prepare_content and with it the line_endings validation",
           "write_diff(<65536+ bytes>, line_endings='bogus') is accepted"),
 'C13-d': ('C13', "diff transcoding done in 64 KiB slices cut at byte offsets",
           "a diff over 64 KiB with diff_encoding set and a multi-byte character straddling a 64 KiB mark (or big-endian UTF-16 with BOM)"),
 'C17-d': ('C17', "_read_until gives up after 1024 buffered bytes, checked only at block boundaries",
           "a header line of at least 1024 bytes; outcome depends on the block size"),
 'C18-d': ('C18', "generate_stats caches computed stats dicts in a module-level cache for diffs >= 4096 bytes and hands out the cached dict itself",
           "two file sections (e.g. in two trees) holding equal diffs of at least 4096 bytes, generate_stats on both, then edit one"),
 'C19-d': ('C19', "OptionProperty.__set__ converts subclass values with data_type(value) after validation; str() honours an overridden __str__",
           "assigning a (str, Enum) member equal to a valid choice stores 'LE.DOS'"),
 'C02-d': ('C02', "explicit line_endings recognised by identity ('is LineEndings.DOS') instead of equality",
           "an explicit line_endings string that is equal but not identical to the constant (any value built at run time) and disagrees with the guess"),
 'C04-d': ('C04', "large-text fast path (> 8192 characters) encodes with the container's encoding, ignoring the section's own encoding=",
           "a preamble or metadata section over 8192 characters that declares its own encoding"),
 'C07-d': ('C07', "content over 64 KiB read block-wise through a line generator whose unfinished tail is dropped at the end",
           "a section of at least 65537 bytes cut mid-line at least 65536 bytes into its content (or with length 1+ too small)"),
 'C10-d': ('C10', "fast path for type=binary diffs ends in 'yield; continue', skipping the valid_sections update",
           "a '...diff' carrying type=binary followed by another '...diff'"),
 'C11-d': ('C11', "option validation via bytes.translate tables built from range(ord('A'), ord('z') + 1)",
           "a key (after its first character) or value containing one of [ \\ ] ^ `"),
 'C12-d': ('C12', "integer pre-check regex removed; every value goes through int(), which accepts PEP 515 digit grouping",
           "an unknown option value of digit groups joined by single underscores (1_0, 2024_01_15)"),
 'C14-d': ('C14', "MalformedHunkError truncates the offending line to 1024 bytes (also in .line)",
           "an offending line longer than 1024 bytes"),
 'C15-d': ('C15', "writer memoises the inherited encoded newline per writer and clears the memo only when a container sets its own encoding",
           "a container with its own encoding followed by a sibling without one, both with inherited content sections"),
 'C16-d': ('C16', "keep_ends lines built with a printf format that embeds the newline bytes",
           "a newline containing '%' (EBCDIC code pages encode LF as 0x25)"),
 'C20-d': ('C20', "lexer slices sections by the header's length= (bytes) while indexing decoded characters",
           "a preamble or diff section containing a non-ASCII character that is not the last section"),
 'C01-e': ('C01', "str content longer than 250000 characters is encoded block-wise with a separate str.encode() per block",
           "a preamble / metadata of more than 250000 characters under a BOM-emitting codec (utf-16, utf-32, utf-8-sig): a BOM lands inside the content at every block boundary"),
 'C02-e': ('C02', "indented content of at least 640000 encoded bytes is split with bytes.splitlines() instead of the section's encoded newline",
           "write_preamble(indent >= 1) of >= 640000 bytes under UTF-16/32, or containing a bare CR"),
 'C03-e': ('C03', "content read in pieces of at most 2 MiB; lines are counted per piece",
           "a non-indented content section over 2 MiB with a line straddling the 2 MiB mark, followed by another section: later line numbers one too high"),
 'C05-e': ('C05', "DOM writer infers type=binary when an untyped diff contains a line 'Binary files X and Y differ'",
           "an untyped diff with that phrase on a line of its own"),
 'C06-e': ('C06', "DOM writer batches writes; a single write of >= 400000 bytes bypasses the batch without flushing it",
           "a canonical file with one content section of at least 400000 bytes"),
 'C07-e': ('C07', "content over 1 MiB read chunk-wise, whole lines only; the carried partial line is never flushed or checked",
           "a section over 1 MiB cut mid-line beyond the first MiB (or with a slightly too small length)"),
 'C08-e': ('C08', "option value regex rewritten with a nested quantifier (?:[A-Za-z0-9]+|[/._-]+)+$",
           "a value of 27+ alphanumerics followed by one illegal character: exponential backtracking, the reader does not return"),
 'C09-e': ('C09', "indented content of at least 300000 bytes is written lazily after the header; b' ' * indent is evaluated after the header is out",
           "write_preamble(>= 300000 bytes, indent=4.0): TypeError after the header was written and the order state advanced"),
 'C13-e': ('C13', "diffs over 1 MiB are transcoded in slices cut after a raw 0x0A byte",
           "a little-endian UTF-16/32 diff over 1 MiB: the slice cut splits a code unit, the file silently gets no stats"),
 'C18-e': ('C18', "stats of diffs of at least 250000 bytes are memoised in a module-level dict and handed out by reference",
           "two file sections with equal diffs of at least 250000 bytes, generate_stats on both"),
 'C04-e': ('C04', "str content over 1 MiB characters is pre-encoded piecewise with the section's OWN encoding argument (utf-8 when None), before inheritance is resolved",
           "a preamble / meta of more than 1048576 characters whose encoding comes only from an enclosing non-UTF-8 container"),
 'C10-e': ('C10', "_read_header caches parsed headers past line 5000 and returns a cache hit before the valid-sections check",
           "an illegal repeat of a header already seen beyond logical line 5000"),
 'C11-e': ('C11', "_read_until gets a peek()-based fast path for buffered streams that over-consumes at buffer refill boundaries",
           "a file read through io.BufferedReader / open(..., 'rb') with a header line straddling a buffer refill"),
 'C12-e': ('C12', "header option list split bounded to 8 pieces",
           "a header with 9 or more options in total"),
 'C14-e': ('C14', "bulk fast path for one-sided hunks of at least 12000 lines computes last_changed_line after the counter was advanced",
           "a hunk that only inserts or only deletes 12000 or more lines"),
 'C15-e': ('C15', "text over 150000 chars encoded piecewise; the BOM of later pieces is dropped via BOMS.get(encoding) on the name as spelled",
           "a str section of more than 150000 characters under a non-table spelling of a BOM-emitting codec (UTF-16, utf_16, u16, ...)"),
 'C16-e': ('C16', "split_lines works in windows of 192 KiB and loses a multi-byte newline that straddles a window edge",
           "data over 196608 bytes with a multi-byte newline straddling a multiple of 196608"),
 'C17-e': ('C17', "reader uses a peek()-based path for streams that offer peek() and treats a short peek as end of data",
           "a file read through a BufferedReader / peek-capable stream"),
 'C19-e': ('C19', "mimetype choice check only looks at the part before ';'",
           "preamble_mimetype = 'text/plain;' or any value with a MIME parameter"),
 'C20-e': ('C20', "lexer gets a git-header state whose 'similarity index N%' rule leaves the % outside every capture group",
           "a diff section with 'diff --git ...' followed by 'similarity index 90%'"),
 'C01-f': ('C01', "writer fast path indents plain UTF-8 preambles with textwrap.indent, which splits on U+0085 / U+2028 / U+2029",
           "write_preamble('a\\u2028b') with indent >= 1: spaces are inserted after the character"),
 'C02-f': ('C02', "non-ASCII str content is NFC-normalised before encoding",
           "a preamble containing a non-NFC sequence (e + U+0301, U+212B, U+0958)"),
 'C03-f': ('C03', "reader passes decoded content through strip_bom first, dropping a real leading U+FEFF",
           "a preamble / metadata whose first character is U+FEFF"),
 'C05-f': ('C05', "DOM reader strips one leading U+FEFF from preamble text",
           "DiffX(preamble='\\ufeffx') written and parsed back"),
 'C06-f': ('C06', "DOM reader strips one leading U+FEFF from preamble text",
           "a library-produced file whose preamble begins with U+FEFF is re-serialised shorter"),
 'C07-f': ('C07', "sections of 1 MiB or more are read block-wise into a per-reader scratch buffer that is returned up to the DECLARED length and never cleared",
           "two sections over 1 MiB in one file, the later one cut short: it is completed with the earlier one's bytes"),
 'C08-f': ('C08', "un-indented decoded content advances the line counter by len(str.splitlines())",
           "U+2028 / U+0085 / FF / VT / FS.. in un-indented text or JSON, then a parse error near the end: line number beyond the input"),
 'C09-f': ('C09', "write_meta dumps JSON into a per-writer StringIO that is reset after use, not in a finally",
           "write_meta({'a': object()}) raises after partial output reached the buffer; the next accepted write_meta emits the stale prefix"),
 'C13-f': ('C13', "diffs with a declared encoding and no line_endings are re-split with str.splitlines()",
           "a hunk line containing FF, VT, FS, U+0085, U+2028 ... : the file silently gets no stats"),
 'C18-f': ('C18', "DOM writer drops options the streaming writer does not accept with del on the dict it holds, which for preamble / change / file sections is section.options itself",
           "an unknown option on a preamble section, then to_bytes(): the option disappears from the tree"),
 'C04-g': ('C04', "reader keeps a stack of the containers' option dicts (the very objects it yields) instead of resolved encoding strings",
           "a consumer that edits a yielded container record's options before asking for the next record"),
 'C10-g': ('C10', "the reader's valid-next-sections set and encoding stack become instance attributes set once in __init__",
           "the same DiffXReader iterated a second time over the rewound stream"),
 'C11-g': ('C11', "the first header line is passed through strip_bom(header, 'utf-8')",
           "EF BB BF immediately before the '#' of the first header"),
 'C12-g': ('C12', "a diff header whose only option is length takes a fast path that counts lines with content.count(b'\\n')",
           "a length-only diff header over content with CRLF first / last lines and a bare LF in between, then an unknown option added to it"),
 'C14-g': ('C14', "logger.debug(...) after each hunk header decodes the header's context text as UTF-8 eagerly",
           "a hunk header whose context holds a byte that is not valid UTF-8"),
 'C15-g': ('C15', "reader memoises encoded newlines per encoding in a table capped at 16 entries; strip_bom happens only on insertion",
           "a 17th distinct encoding spelling in one file naming a BOM-emitting codec on a section with line_endings"),
 'C16-g': ('C16', "split_lines keeps a one-entry module-level cache and hands out the cached list itself for keep_ends=False",
           "the caller edits the returned list, then splits equal data again"),
 'C17-g': ('C17', "reader tracks its own offset from 0 and undoes read-ahead with an absolute seek",
           "a stream whose first bytes were consumed by the caller before the reader got it"),
 'C19-g': ('C19', "preamble sections compare their text after lstrip('\\ufeff')",
           "two trees whose preambles differ only by a leading U+FEFF compare equal"),
 'C20-g': ('C20', "_end_section lookahead also matches '#diffx:' anywhere",
           "section content containing the characters '#diffx:'"),
 'C01-h': ('C01', "reader strips indentation of ASCII-newline content with one multiline regex (^ matches after every LF)",
           "dos preamble with indent >= 1 containing a bare LF followed by a space"),
 'C02-h': ('C02', "write_meta sorts keys with its own recursive helper (dict and list only) instead of sort_keys=True",
           "metadata holding a tuple that holds a dict with unsorted keys"),
 'C03-h': ('C03', "integer option values recognised by trying int() on anything ending in a digit",
           "option value 1_0 / 2024_01_15 (PEP 515 underscores) becomes an int; length=1_2 accepted"),
 'C05-h': ('C05', "DOM writer rewrites a file's path {old: P, new: P} to the plain string P",
           "file metadata whose path pair has equal old and new"),
 'C06-h': ('C06', "DOM reader rewrites a file's path {old: P, new: P} to the plain string P",
           "file metadata whose path pair has equal old and new"),
 'C07-h': ('C07', "type=binary diffs without line_endings are returned without the final-newline check",
           "a foreign '#...diff: length=N, type=binary' section cut short or with a wrong length"),
 'C08-h': ('C08', "metadata without any declared encoding is decoded as utf-8-sig outside the try block",
           "no encoding anywhere and a non-UTF-8 byte in JSON metadata: UnicodeDecodeError escapes"),
 'C09-h': ('C09', "writer memoises encoded newlines per encoding name, inserting ASCII defaults before consulting the codec",
           "the same unknown codec name used a second time on one writer with write_diff"),
 'C13-h': ('C13', "generate_stats feeds the hunk parser from a lazy line generator that never yields an unterminated last line",
           "a diff whose last line has no final newline"),
 'C18-h': ('C18', "DOM writer keeps the streaming writer in self._writer during write_stream; to_bytes uses one module-level DOM writer",
           "two serialisations overlapping in time (two threads) through one DOM writer / through to_bytes"),
 'C04-i': ('C04', "writer caches encoded newline bytes per explicit line_endings value; the cache is cleared only when a container declares an encoding",
           "explicit line_endings on two preambles that inherit their encoding, the second in a sibling change without encoding after a UTF-16 one"),
 'C10-i': ('C10', "after a file's metadata says type symlink / directory the reader no longer allows a diff section",
           "'...meta' with {\"type\": \"symlink\"} followed by '...diff'"),
 'C11-i': ('C11', "option key / value character checks moved into a helper called inside an assert statement",
           "an interpreter started with -O (PYTHONOPTIMIZE): any invalid option character is accepted"),
 'C12-i': ('C12', "per-reader memo of option keys that carried text; such keys skip integer conversion on later headers",
           "the same unknown key on two headers, a word first and an integer later"),
 'C14-i': ('C14', "the No-newline marker test moved first and compares line.strip()",
           "a context line whose text is the marker (' \\ No newline at end of file')"),
 'C15-i': ('C15', "guess_line_endings uses one regex escape(cr) + '?' + escape(lf); the ? binds to the last byte of a multi-byte CR",
           "UTF-16/32 byte content where the character before an LF has a code-unit byte 0x0D / 0x00 (U+0D02, U+4E00)"),
 'C16-i': ('C16', "a final unterminated line that is exactly Ctrl-Z is dropped for DOS newlines",
           "split_lines(b'a\\r\\n\\x1a', b'\\r\\n')"),
 'C19-i': ('C19', "content equality walks nested metadata with an explicit stack whose visited set is keyed by id() of the LEFT object only",
           "metadata holding the same list object under two keys; the other tree differs under the first key only"),
 'C20-i': ('C20', "per-section lexer rules end only at headers a hand-written follower table allows; '...meta' lacks '.change'",
           "a file's metadata directly followed by a new change (file without diff)"),
 'C14-c': ('C14', "num_processed_lines returns the line of the last finalised hunk instead of the loop position",
           "ignore_garbage=True with non-hunk lines after the last hunk, or no hunks at all"),
}

EXTRA = {
 'C11-b': {'base': "pre-fix a63b01d (mutants/revert-a63b01d-*.diff + this patch); on the fixed tree the same edit rejects 'encoding=utf-8' and fails the suite"},
 'C03-b': {'note': "confirmed by tools/verify_seed.sh before fix c5c7a8d; on the fixed tree the demo passes (the C03 defect is rejected by the new raw check) while C16 still reports the split_lines law violation"},
 'C07-b': {'note': "patch.diff confirmed before fix c5c7a8d and neutralised by it; patch.rebased.diff (same slip on the raw check) re-confirmed on the fixed tree"},
 'C12-b': {'note': "patch.diff is the rebased form on the tree after fix a63b01d (original hunk no longer applied)"},
 'C15-b': {'note': "patch.rebased.diff applies the same edit to strip_bom() after fix cda43c9"},
}


def main():
    det = {}
    for path in sys.argv[1:]:
        for line in open(path):
            m = re.match(r'(\S+) : detected-by(.*?) \| harness-error(.*)$',
                         line.strip())
            if m:
                det[m.group(1)] = (m.group(2).split(), m.group(3).split())
    for name, (prop, what, needs) in sorted(SEEDS.items()):
        d = os.path.join(ROOT, 'seeded', name)
        if not os.path.isdir(d):
            print('missing', name)
            continue
        meta = {
            'name': name, 'property': prop, 'what': what, 'needs': needs,
            'origin': 'independent sub-agent given only the property text '
                      'and a scratch worktree (wave %s)' % name[-1],
            'ran': [
                'tools/verify_seed.sh %s: in a fresh scratch worktree of '
                '/repo HEAD the demo passes without the patch, the patch '
                'applies, the full suite gives 176 passed with it, and the '
                'demo fails with it' % name,
                'tools/matrix.sh: every quick check against a scratch copy '
                'with the patch applied',
            ],
        }
        meta.update(EXTRA.get(name, {}))
        try:        # keep earlier detection results when no log covers it
            prev = json.load(open(os.path.join(d, 'meta.json')))
            for k in ('detected_by', 'detected_with', 'harness_errors'):
                if k in prev:
                    meta[k] = prev[k]
        except Exception:
            pass
        for key in ('seeded/%s/patch.rebased.diff' % name,
                    'seeded/%s/patch.diff' % name):
            if key in det:
                meta['detected_by'] = det[key][0]
                meta['detected_with'] = os.path.basename(key)
                meta.pop('harness_errors', None)
                if det[key][1]:
                    meta['harness_errors'] = det[key][1]
                break
        with open(os.path.join(d, 'meta.json'), 'w') as f:
            json.dump(meta, f, indent=1, sort_keys=True)
            f.write('\n')
    print('wrote %d meta.json' % len(SEEDS))


if __name__ == '__main__':
    main()
