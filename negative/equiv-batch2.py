#!/venv/bin/python
"""Differential equivalence check: patched pydiffx vs. pristine copy.

Usage:
    equiv.py GROUP[,GROUP...]        run groups in both libraries and compare
    equiv.py all                     run every group
    equiv.py --worker LIBDIR GROUP   (internal) print "case<TAB>result" lines

Each group is run in two separate subprocesses: one importing the library
from /tmp/wt/NEG2/python (patched) and one from /tmp/seed-out/NEG2/orig/python
(pristine `git archive HEAD`). The outputs are compared line by line.
"""

import hashlib
import io
import json
import os
import random
import subprocess
import sys
import tempfile

PATCHED = os.environ.get('EQUIV_PATCHED', '/tmp/wt/NEG2/python')
ORIG = '/tmp/seed-out/NEG2/orig/python'
HERE = os.path.abspath(__file__)

GROUPS = {}


def group(fn):
    GROUPS[fn.__name__[2:]] = fn
    return fn


def short(v):
    r = v if isinstance(v, str) else repr(v)
    if len(r) > 160:
        r = '%s...[%d sha1=%s]' % (r[:60], len(r),
                                   hashlib.sha1(r.encode('utf-8', 'backslashreplace')).hexdigest())
    return r.replace('\n', '\\n').replace('\t', '\\t')


def exc_info(e):
    extra = ''
    for a in ('linenum', 'column', 'line', 'line_num'):
        if hasattr(e, a):
            extra += ' %s=%r' % (a, getattr(e, a))
    return 'EXC %s.%s: %s%s' % (type(e).__module__, type(e).__name__, e, extra)


def attempt(fn, *a, **kw):
    try:
        return short(fn(*a, **kw))
    except RecursionError as e:
        return 'EXC RecursionError'
    except BaseException as e:
        if isinstance(e, (KeyboardInterrupt, SystemExit, MemoryError)):
            raise
        return short(exc_info(e))


OUT = []


def emit(case, result):
    OUT.append('%s\t%s' % (case, result if isinstance(result, str) else short(result)))


# ----------------------------------------------------------------------
# Independent serializer for building corpus files (no library code used).
# ----------------------------------------------------------------------
def hdr(sid, nl=b'\n', order=None, **opts):
    items = [(k, v) for k, v in opts.items() if v is not None]
    if order == 'rev':
        items.sort(reverse=True)
    elif order == 'shuf':
        random.Random(len(items) * 7 + len(sid)).shuffle(items)
    else:
        items.sort()
    s = '#%s:' % sid
    if items:
        s += ' ' + ', '.join('%s=%s' % kv for kv in items)
    return s.encode('ascii') + nl


def bomless(s, enc):
    import codecs
    b = s.encode(enc, 'replace')
    name = codecs.lookup(enc).name
    for bom in {'utf-8-sig': (codecs.BOM_UTF8,),
                'utf-16': (codecs.BOM_UTF16_LE, codecs.BOM_UTF16_BE),
                'utf-32': (codecs.BOM_UTF32_LE, codecs.BOM_UTF32_BE)}.get(name, ()):
        if b.startswith(bom):
            return b[len(bom):]
    return b


def sec(sid, content, nl=b'\n', order=None, **opts):
    return hdr(sid, nl=nl, order=order, length=len(content), **opts) + content


def preamble_bytes(text, enc, indent, le):
    """Encode text (must end with newline of kind le) + indent each line."""
    n = {'unix': '\n', 'dos': '\r\n'}[le]
    assert text.endswith(n)
    nb = bomless(n, enc)
    body = text.encode(enc, 'replace')
    lines = body.split(nb)
    assert lines[-1] == b''
    lines.pop()
    return b''.join(b' ' * indent + l + nb for l in lines)


SPECIAL = ('plain line\n\u2028 ls \u0085 nel \x0c ff \x0b vt \ufeff bom '
           'e\u0301 nonNFC \x00 nul\n#.change: fake=1\n    indented\n\n'
           'tail \U0001f600\n')

DIFF1 = (b'--- a/f\n+++ b/f\n@@ -1,3 +1,4 @@\n ctx\n-old\n+new\n+new2\n ctx2\n'
         b'@@ -10 +11,0 @@ fn()\n-gone\n\\ No newline at end of file\n')


def build_file(enc='utf-8', penc=None, indent=4, le='unix', hnl=b'\n',
               blank=False, order=None, extra=None, nchanges=2, nfiles=2,
               big=0, text=SPECIAL, main_enc=True):
    extra = extra or {}
    out = []
    sep = hnl if blank else b''
    out.append(hdr('diffx', nl=hnl, order=order, version='1.0',
                   encoding=enc if main_enc else None, **extra))
    eff = penc or enc
    t = text if le == 'unix' else text.replace('\n', '\r\n')
    try:
        out.append(sep + sec('.preamble', preamble_bytes(t, eff, indent, le),
                             nl=hnl, order=order, encoding=penc, indent=indent,
                             line_endings=le, mimetype='text/markdown', **extra))
    except UnicodeEncodeError:
        t2 = 'ascii only\nsecond\n'.replace('\n', {'unix': '\n', 'dos': '\r\n'}[le])
        out.append(sep + sec('.preamble', preamble_bytes(t2, eff, indent, le),
                             nl=hnl, order=order, encoding=penc, indent=indent,
                             line_endings=le, **extra))
    meta = json.dumps({'stats': {'changes': nchanges}, 'k': ['v', 1, None]},
                      indent=4, sort_keys=True) + '\n'
    out.append(sep + sec('.meta', bomless(meta, enc), nl=hnl, order=order,
                         format='json', **extra))
    for c in range(nchanges):
        cenc = [None, 'utf-16', 'latin1', 'utf-32-be'][c % 4]
        out.append(sep + hdr('.change', nl=hnl, order=order, encoding=cenc, **extra))
        ce = cenc or enc
        pt = 'change %d\nsummary \xe9\n' % c
        out.append(sec('..preamble', preamble_bytes(pt, ce, 2, 'unix'),
                       nl=hnl, order=order, indent=2, **extra))
        m = json.dumps({'id': 'c%d' % c, 'author': 'A \xe9'}) + '\n'
        out.append(sec('..meta', bomless(m, ce), nl=hnl, order=order, **extra))
        for f in range(nfiles):
            fenc = [None, 'utf-8', 'utf-16-le'][f % 3]
            out.append(sep + hdr('..file', nl=hnl, order=order, encoding=fenc, **extra))
            fe = fenc or ce
            m = json.dumps({'path': 'f%d' % f, 'n': f}, indent=4) + '\n'
            out.append(sec('...meta', bomless(m, fe), nl=hnl, order=order,
                           format='json', **extra))
            d = DIFF1
            if big and c == 0 and f == 0:
                d = (b'@@ -1,%d +1,0 @@\n' % big) + b'-0123456789abcdef\n' * big
            if f % 2 == 0:
                out.append(sec('...diff', d, nl=hnl, order=order,
                               line_endings='unix', type='text', **extra))
            else:
                d2 = d.replace(b'\n', b'\r\n')
                out.append(sec('...diff', d2, nl=hnl, order=order, **extra))
    return b''.join(out)


# ----------------------------------------------------------------------
# Stream kinds
# ----------------------------------------------------------------------
class ShortPeek(io.BufferedReader):
    """peek() returns only 1..3 bytes, cycling."""
    _n = 0

    def peek(self, size=0):
        self._n += 1
        return super().peek(size)[:1 + self._n % 3]


class EmptyPeek(io.BufferedReader):
    """peek() returns b'' every other call even when data is available."""
    _n = 0

    def peek(self, size=0):
        self._n += 1
        if self._n % 2:
            return b''
        return super().peek(size)


class LongPeek(io.BufferedReader):
    """peek() always returns everything buffered (ignores size)."""

    def peek(self, size=0):
        return super().peek(1 << 20)


class Duck(object):
    """Only read()/seek()/tell()/close(); no readline, no peek."""

    def __init__(self, data):
        self._b = io.BytesIO(data)

    def read(self, n=-1):
        return self._b.read(n)

    def seek(self, *a):
        return self._b.seek(*a)

    def tell(self):
        return self._b.tell()

    def close(self):
        self._b.close()

    def __enter__(self):
        return self

    def __exit__(self, *a):
        self.close()


class ShortRaw(io.RawIOBase):
    """Raw stream returning at most `cap` bytes per read."""

    def __init__(self, data, cap):
        self._d = data
        self._p = 0
        self._cap = cap

    def readable(self):
        return True

    def seekable(self):
        return True

    def seek(self, off, whence=0):
        if whence == 0:
            self._p = off
        elif whence == 1:
            self._p += off
        else:
            self._p = len(self._d) + off
        self._p = max(0, self._p)
        return self._p

    def tell(self):
        return self._p

    def readinto(self, b):
        n = min(len(b), self._cap, max(0, len(self._d) - self._p))
        b[:n] = self._d[self._p:self._p + n]
        self._p += n
        return n


_TMP = []


def _tmpfile(data):
    fd, path = tempfile.mkstemp(prefix='equiv-')
    os.write(fd, data)
    os.close(fd)
    _TMP.append(path)
    return path


def stream_kinds(full=True):
    import _pyio
    kinds = {
        'bytesio': lambda d: io.BytesIO(d),
        'buf1': lambda d: io.BufferedReader(io.BytesIO(d), buffer_size=1),
        'buf5': lambda d: io.BufferedReader(io.BytesIO(d), buffer_size=5),
        'buf8k': lambda d: io.BufferedReader(io.BytesIO(d)),
        'file': lambda d: open(_tmpfile(d), 'rb'),
        'shortpeek': lambda d: ShortPeek(io.BytesIO(d), buffer_size=7),
        'emptypeek': lambda d: EmptyPeek(io.BytesIO(d), buffer_size=64),
        'duck': lambda d: Duck(d),
    }
    if full:
        kinds.update({
            'buf2': lambda d: io.BufferedReader(io.BytesIO(d), buffer_size=2),
            'buf96': lambda d: io.BufferedReader(io.BytesIO(d), buffer_size=96),
            'buf97': lambda d: io.BufferedReader(io.BytesIO(d), buffer_size=97),
            'bufrandom': lambda d: io.BufferedRandom(io.BytesIO(d), buffer_size=13),
            'file16': lambda d: open(_tmpfile(d), 'rb', buffering=16),
            'fileraw': lambda d: open(_tmpfile(d), 'rb', buffering=0),
            'filerplus': lambda d: open(_tmpfile(d), 'r+b'),
            'longpeek': lambda d: LongPeek(io.BytesIO(d), buffer_size=50),
            'shortraw': lambda d: ShortRaw(d, 10),
            'bufshortraw': lambda d: io.BufferedReader(ShortRaw(d, 10), buffer_size=32),
            'bufshortraw_big': lambda d: io.BufferedReader(ShortRaw(d, 100000), buffer_size=1 << 17),
            'shortraw_big': lambda d: ShortRaw(d, 100000),
            'pyio_bytesio': lambda d: _pyio.BytesIO(d),
            'pyio_buf': lambda d: _pyio.BufferedReader(_pyio.BytesIO(d), buffer_size=11),
            'bytesio_sub': lambda d: type('B2', (io.BytesIO,), {})(d),
        })
    return kinds


def read_all(stream, chunk=None, via='defaults'):
    """Iterate the streaming reader; return records + error description."""
    from pydiffx.reader import DiffXReader
    cls = DiffXReader
    if chunk is not None:
        if via == 'defaults':
            saved = DiffXReader._read_until.__defaults__
            DiffXReader._read_until.__defaults__ = (chunk,)
        else:
            class cls(DiffXReader):
                def _read_until(self, c, chunk_size=chunk):
                    return super()._read_until(c, chunk_size=chunk_size)
    recs = []
    err = None
    try:
        try:
            for r in cls(stream):
                recs.append(r)
        except RecursionError:
            err = 'EXC RecursionError'
        except Exception as e:
            err = exc_info(e)
    finally:
        if chunk is not None and via == 'defaults':
            DiffXReader._read_until.__defaults__ = saved
    # Type-sensitive repr of records.
    def tr(v):
        if isinstance(v, dict):
            return '{%s}' % ', '.join('%r: %s' % (k, tr(v[k])) for k in sorted(v))
        if isinstance(v, list):
            return '[%s]' % ', '.join(tr(x) for x in v)
        return '%s:%r' % (type(v).__name__, v)
    return 'n=%d %s | %s' % (len(recs), short(tr(recs)), short(err or 'ok'))


def cleanup():
    for p in _TMP:
        try:
            os.unlink(p)
        except OSError:
            pass


# GROUPS-BEGIN
def reader_corpus():
    files = {}
    files['base'] = build_file()
    files['crlf'] = build_file(hnl=b'\r\n', blank=True, order='rev', le='dos')
    files['utf16'] = build_file(enc='utf-16', indent=7, order='shuf')
    files['U16'] = build_file(enc='UTF_16', penc='U32', indent=1)
    files['latin'] = build_file(enc='latin1', penc='utf-8-sig', indent=0)
    files['sjis'] = build_file(enc='shift_jis', penc='cp1252', indent=12, le='dos')
    files['noenc'] = build_file(main_enc=False, penc='utf-8')
    files['longhdr'] = build_file(extra={'x' * 40: 'y' * 150, 'pad': 'z' * 97,
                                          'n': 12345678901234567890})
    files['blank'] = build_file(blank=True)
    # Single-defect files.
    b = files['base']
    files['badver'] = b.replace(b'version=1.0', b'version=2.0', 1)
    files['nover'] = b.replace(b', version=1.0', b'', 1)
    files['badfmt'] = b.replace(b'format=json', b'format=yaml', 1)
    files['badle'] = b.replace(b'line_endings=unix', b'line_endings=mac', 1)
    files['badenc'] = b.replace(b'encoding=utf-8', b'encoding=nope-8', 1)
    files['numenc'] = b.replace(b'encoding=utf-8', b'encoding=12', 1)
    files['badindent'] = b.replace(b'indent=4', b'indent=-4', 1)
    files['strindent'] = b.replace(b'indent=4', b'indent=four', 1)
    files['hugeindent'] = b.replace(b'indent=4', b'indent=%d' % 10 ** 30, 1)
    files['mixednl'] = files['crlf'].replace(b'#.meta: format=json, length=', b'#.meta: format=json, length=', 1).replace(b'\r\n#.change', b'\n#.change', 1)
    files['twomain'] = b + b
    files['trailjunk'] = b + b'#.change'
    files['trailblank'] = b + b'\n\n  \n\t\n'
    files['empty'] = b''
    files['onlynl'] = b'\n\n\n'
    files['nonl'] = b'#diffx: version=1.0'
    for i, ln in enumerate([b'-1', b'0', b'abc', b'1e3', b'%d' % 10 ** 30,
                            b'%d' % 2 ** 63, b'%d' % (2 ** 63 - 1), b'9' * 5000,
                            b'-' + b'9' * 5000, b'007', b'-0', b'1.5', b'99999']):
        import re
        files['len%d' % i] = re.sub(br'length=\d+', b'length=' + ln, b, count=1)
    for d in (-3, -2, -1, 1, 2, 3, 40):
        import re
        n = [0]

        def rep(m, d=d, n=n):
            n[0] += 1
            if n[0] == 2:
                return b'length=%d' % max(0, int(m.group(1)) + d)
            return m.group(0)
        files['lendelta%d' % d] = re.sub(br'length=(\d+)', rep, b)
    return files


def header_lines():
    """Header-grammar fuzz: lines placed in header position."""
    rnd = random.Random(99)
    alpha = ['a', 'Z', '9', '_', '-', '.', '/', ' ', ',', '=', ':', '#', '+',
             '\t', '\xe9', 'length', 'version', '1.0', ', ', '=1']
    lines = [
        '#diffx: version=1.0', '#diffx:', '#diffx: ', '#diffx:  version=1.0',
        '#diffx: version=1.0 ', '#diffx: version=1.0,encoding=utf-8',
        '#diffx: version=1.0,  encoding=utf-8', '#diffx: version=1.0, ',
        '#diffx: version=1.0,', '#diffx: =1.0', '#diffx: version=',
        '#diffx: version==1.0', '#diffx: ver sion=1.0', '#diffx: 1version=1.0',
        '#diffx: _v=1.0', '#diffx: v-_9=1.0, version=1.0', '#diffx: version=1.0, a=b=c',
        '#diffx: version=1.0, a=+1', '#diffx: version=1.0, a=1+', '#diffx: version=1.0, a=-',
        '#diffx: version=1.0, a=--1', '#diffx: version=1.0, a=-1, b=-0, c=007, d=1_0',
        '#diffx: version=1.0, a=%d' % 10 ** 40, '#diffx: version=1.0, a=' + '9' * 4300,
        '#diffx: version=1.0, a=' + '9' * 4301, '#diffx: version=1.0, a=-' + '9' * 6000,
        '#diffx: version=1.0, a=\xe9', '#diffx: version=1.0, \xe9=1', '#diffx: version=1.0, a=b\xe9c',
        '#diffx: version=1.0, a=b, a=c', '#diffx: version=1.0, a=b:c', '#diffx: version=1.0, a:b=c',
        '#diffx: version=1.0, a=b#c', '#diffx: version=1.0, a#=c', ' #diffx: version=1.0',
        '#diffx : version=1.0', '#Diffx: version=1.0', '#diffx: version=1.0\r',
        '#diffx: version=1.0\x00', '#diffx: version=1.0, a=b\x0bc', '#diffx: version=1.0, a=b\x0c',
        '#diffx: version=1.0, a=١', '#diffx: version=1.0, a=１',
        '#diffx: version=1.0\t', '#diffx:\tversion=1.0', '#.diffx: version=1.0',
        '#....diffx: version=1.0', '#diffxx: version=1.0', '#diffx version=1.0',
        '##diffx: version=1.0', '#diffx: version=1.0, a= b', '#diffx: version=1.0, a =b',
        '#diffx: version=1.0, A-Z_9=/._-', '#diffx: version=1.0, -a=1', '#diffx: version=1.0, a.b=1',
        '#diffx: version=1.0, a/b=1', '#diffx: a=1=2, version=1.0', '#diffx: a=,, version=1.0',
    ]
    for _ in range(1500):
        n = rnd.randint(0, 7)
        lines.append('#diffx:' + rnd.choice(['', ' ', ' ', '  ']) +
                     ''.join(rnd.choice(alpha) for _ in range(n)))
    for _ in range(500):
        n = rnd.randint(1, 4)
        opts = ', '.join('%s=%s' % (
            ''.join(rnd.choice('aZ9_-.+ \xe9') for _ in range(rnd.randint(1, 3))),
            ''.join(rnd.choice('aZ9_-./+ ,\xe9') for _ in range(rnd.randint(1, 3))))
            for _ in range(n))
        lines.append('#diffx: version=1.0, ' + opts)
    return lines


@group
def g_reader():
    """Streaming reader: corpus x stream kinds x chunk sizes; truncations;
    corruptions; random bytes."""
    files = reader_corpus()
    kinds_full = stream_kinds(True)
    kinds_few = stream_kinds(False)
    # 1. every file, every stream kind, default chunk.
    for fn, data in sorted(files.items()):
        for kn, mk in sorted(kinds_full.items()):
            s = mk(data)
            emit('reader/%s/%s/default' % (fn, kn), read_all(s))
    # 2. base-like files: every chunk size 1..200 on main kinds.
    for fn in ('base', 'crlf', 'longhdr', 'trailjunk', 'lendelta-1'):
        data = files[fn]
        for chunk in range(1, 201):
            for kn, mk in sorted(kinds_few.items()):
                emit('reader/%s/%s/c%d' % (fn, kn, chunk),
                     read_all(mk(data), chunk=chunk,
                              via='defaults' if chunk % 2 else 'subclass'))
    # 3. all kinds, selected chunks, all files.
    for fn, data in sorted(files.items()):
        for chunk in (1, 2, 3, 7, 95, 96, 97, 200, 100000):
            for kn, mk in sorted(kinds_full.items()):
                if len(data) > 20000 and chunk < 3 and kn.startswith('pyio'):
                    continue
                emit('reader/%s/%s/c%d' % (fn, kn, chunk),
                     read_all(mk(data), chunk=chunk))
    # 4. truncation at every byte of a small file, several kinds/chunks.
    small = build_file(nchanges=1, nfiles=1, text='a\n b\n', indent=2)
    for cut in range(len(small) + 1):
        for kn in ('bytesio', 'buf5', 'shortpeek', 'emptypeek', 'file'):
            for chunk in (None, 1, 13):
                emit('trunc/%d/%s/%s' % (cut, kn, chunk),
                     read_all(kinds_full[kn](small[:cut]), chunk=chunk))
    # 5. random single/double byte corruptions.
    rnd = random.Random(5)
    for i in range(1500):
        d = bytearray(small)
        for _ in range(rnd.choice((1, 1, 2))):
            p = rnd.randrange(len(d))
            op = rnd.randrange(3)
            if op == 0:
                d[p] = rnd.choice(b'\n\r #.:=,0919azAZ\x00\xff-_/')
            elif op == 1:
                del d[p]
            else:
                d.insert(p, rnd.choice(b'\n\r #.:=,09az\x00\xff'))
        kn = rnd.choice(('bytesio', 'buf5', 'shortpeek', 'buf8k', 'emptypeek'))
        emit('corrupt/%d/%s' % (i, kn),
             read_all(kinds_full[kn](bytes(d)), chunk=rnd.choice((None, 1, 4, 50))))
    # 6. random bytes.
    for i in range(300):
        n = rnd.randint(0, 300)
        d = bytes(rnd.choice(b'#.diffx:metaprblchng= ,\n\r0123456789\x00\xff') for _ in range(n))
        if i % 3 == 0:
            d = b'#diffx: version=1.0\n' + d
        kn = rnd.choice(('bytesio', 'buf5', 'shortpeek', 'file'))
        emit('random/%d/%s' % (i, kn), read_all(kinds_full[kn](d), chunk=rnd.choice((None, 1, 9))))
    # 7. header grammar fuzz, with a following valid section so that line
    #    numbers/columns are observable.
    for i, line in enumerate(header_lines()):
        raw = line.encode('latin1', 'replace') if all(ord(c) < 256 for c in line) else line.encode('utf-8')
        d = raw + b'\n#.change:\n#..file:\n#...meta: length=3\n{}\n'
        kn = ('bytesio', 'buf5', 'shortpeek')[i % 3]
        emit('hdr/%d' % i, read_all(kinds_full[kn](d), chunk=(None, 1, 30)[i % 3]))
        if i < 80:
            d = b'\n\n' + raw + b'\r\n#.change:\r\n'
            emit('hdrcrlf/%d' % i, read_all(kinds_full[kn](d)))
    # 8. headers aligned at every offset relative to read-ahead blocks.
    for pad in range(0, 200):
        d = build_file(nchanges=1, nfiles=1, extra={'p': 'q' * (pad + 1)}, text='x\ny\n')
        for kn in ('bytesio', 'buf96', 'shortpeek', 'file16'):
            emit('align/%d/%s' % (pad, kn), read_all(kinds_full[kn](d)))
    # 9. section-order sequences.
    ids = ['diffx', '.preamble', '.meta', '.change', '..preamble', '..meta',
           '..file', '...meta', '...diff', '.file', '..change', '...preamble',
           '.diff', '....meta']
    import itertools
    for seq in itertools.product(ids, repeat=3):
        d = b''
        for sid in ('diffx',) + seq:
            name = sid.lstrip('.')
            if name == 'diffx':
                d += hdr(sid, version='1.0', encoding='utf-8')
            elif name in ('change', 'file'):
                d += hdr(sid)
            elif name == 'meta':
                d += sec(sid, b'{"a": 1}\n')
            else:
                d += sec(sid, b'x\n')
        emit('order/%s' % ','.join(seq), read_all(io.BytesIO(d[len(hdr('diffx', version='1.0', encoding='utf-8')):] if seq[0] == 'diffx' else d)))


@group
def g_bigread():
    """Large content sections (>= 1 MiB) through every stream kind."""
    kinds = stream_kinds(True)
    MiB = 1 << 20
    rnd = random.Random(3)
    cases = {}
    for name, n in (('1MiB-1', MiB - 1), ('1MiB', MiB), ('1MiB+1', MiB + 1),
                    ('3MiB+17', 3 * MiB + 17), ('64K', 65536), ('64K+1', 65537)):
        body = bytes(rnd.getrandbits(8) for _ in range(4096)) * (n // 4096 + 1)
        body = body[:n - 1].replace(b'\n', b'x') + b'\n'
        assert len(body) == n
        pre = hdr('diffx', version='1.0', encoding='latin1') + hdr('.change') + hdr('..file') + sec('...meta', b'{"a": 1}\n')
        post = hdr('..file') + sec('...meta', b'{"b": 2}\n') + sec('...diff', b'@@ -1 +1 @@\n-a\n+b\n')
        cases[name] = (pre, body, post)
    for name, (pre, body, post) in sorted(cases.items()):
        n = len(body)
        variants = {
            'ok': pre + sec('...diff', body) + post,
            'short5': pre + hdr('...diff', length=n) + body[:-5],
            'shorthalf': pre + hdr('...diff', length=n) + body[:n // 2],
            'shortblock': pre + hdr('...diff', length=n) + body[:65536],
            'over': pre + hdr('...diff', length=n + 7) + body + post,
            'under': pre + hdr('...diff', length=n - 7) + body + post,
            'huge': pre + hdr('...diff', length=10 ** 30) + body + post,
            'max': pre + hdr('...diff', length=2 ** 63 - 1) + body + post,
            'max+1': pre + hdr('...diff', length=2 ** 63) + body + post,
            '2**62': pre + hdr('...diff', length=2 ** 62) + body,
            'decl64M': pre + hdr('...diff', length=64 << 20) + body + post,
            'decl64M+1': pre + hdr('...diff', length=(64 << 20) + 1) + body + post,
            'decl100M': pre + hdr('...diff', length=100 << 20) + body,
            'decl2M': pre + hdr('...diff', length=2 << 20) + body + post,
            'twice': pre + sec('...diff', body) + hdr('..file') + sec('...meta', b'{"c": 3}\n') + sec('...diff', body[::-1][1:].replace(b'\n', b'y') + b'\n') + post,
            'dos': pre + sec('...diff', body[:-2] + b'\r\n', line_endings='dos') + post,
            'enc16': pre + sec('...diff', body[:(n // 2) * 2 - 2] + b'\n\x00', encoding='utf-16-le') + post,
        }
        # preamble and meta as large sections as well
        ptxt = ('line \xe9 %s\n' % ('p' * 70)) * (n // 78 + 1)
        pb = preamble_bytes(ptxt, 'latin1', 3, 'unix')
        variants['bigpre'] = (hdr('diffx', version='1.0', encoding='latin1') +
                              sec('.preamble', pb, indent=3) + hdr('.change') + post)
        mb = (json.dumps({'k%d' % i: 'v' * 50 for i in range(n // 64 + 1)}) + '\n').encode()
        variants['bigmeta'] = (hdr('diffx', version='1.0', encoding='utf-8') +
                               sec('.meta', mb) + hdr('.change') + post)
        variants['bigmeta_cut'] = variants['bigmeta'][:len(variants['bigmeta']) // 2]
        for vn, data in sorted(variants.items()):
            for kn, mk in sorted(kinds.items()):
                if kn.startswith('pyio') or kn in ('buf1', 'buf2', 'shortraw', 'bufshortraw'):
                    if name != '1MiB+1':
                        continue
                emit('big/%s/%s/%s' % (name, vn, kn), read_all(mk(data)))
    # The DOM on top: parse, re-serialise, parse a second document with the
    # same reader object (stale data check).
    from pydiffx.dom.objects import DiffX
    from pydiffx.dom.reader import DiffXDOMReader
    r = DiffXDOMReader(DiffX)
    pre, body, post = cases['3MiB+17']
    a = pre + sec('...diff', body) + post
    pre, body2, post = cases['1MiB+1']
    b = pre + sec('...diff', body2) + post
    for i, d in enumerate((a, b, a, b[:len(b) // 2], a)):
        def f(d=d):
            x = r.parse(io.BytesIO(d))
            out = x.to_bytes()
            return hashlib.sha1(out).hexdigest(), len(out), out == d
        emit('bigdom/%d' % i, attempt(f))


def codec_spellings():
    import codecs
    import encodings.aliases
    names = set()
    for alias, mod in encodings.aliases.aliases.items():
        names.add(alias)
        names.add(mod)
    names.update(['utf-8', 'UTF-8', 'Utf_8', 'utf8', 'U8', 'utf-8-sig', 'UTF_8_SIG',
                  'utf-16', 'UTF-16', 'utf_16', 'utf16', 'U16', 'UTF-16LE', 'utf-16-le',
                  'UTF_16_BE', 'utf-16be', 'utf-32', 'UTF32', 'U32', 'utf-32-le',
                  'UTF-32BE', 'latin-1', 'latin1', 'L1', 'iso-8859-1', 'ISO_8859_1',
                  '8859', 'cp1252', 'windows-1252', 'CP-1252', 'ascii', 'US-ASCII',
                  '646', 'shift_jis', 'sjis', 'ms932', 'euc-jp', 'gb18030', 'big5',
                  'utf-7', 'UTF7', 'iso2022_jp', 'hz', 'punycode', 'idna', 'cp037',
                  'cp500', 'rot13', 'base64', 'hex', 'zlib', 'undefined', 'mbcs',
                  'unicode_escape', 'raw_unicode_escape', 'unknown-x', 'oem'])
    out = []
    for n in sorted(names):
        out.append(n)
        v = n.upper().replace('_', '-')
        if v != n:
            out.append(v)
    return out


TEXTS = [
    'one line',
    'one\ntwo\n',
    'dos\r\nlines\r\n',
    'mixed\r\nthen unix\nend',
    '\nleading blank\n\n\n',
    '\r\n',
    'x',
    SPECIAL,
    SPECIAL.replace('\n', '\r\n'),
    '﻿starts with bom\n﻿ second\n',
    'caf\xe9 € あア \U0001f600\n',
    'cr only\rstill same line\r',
    'a\x0bb\x0cc\x1cd\x1de\x1ef\x85g h i\n',
    '    pre-indented\n\ttab\n  \n',
    '#diffx: version=1.0\n#.change:\n@@ -1 +1 @@\n',
]


def write_script(steps, main_kw=None, keep=False):
    """Run writer calls; steps = [(method, args, kwargs)]. Returns a
    description of per-step outcomes and the final bytes."""
    from pydiffx.writer import DiffXWriter
    buf = io.BytesIO()
    res = []
    try:
        w = DiffXWriter(buf, **(main_kw or {}))
    except Exception as e:
        return 'ctor ' + exc_info(e) + ' bytes=%r' % buf.getvalue()
    for m, a, kw in steps:
        before = buf.getvalue()
        try:
            getattr(w, m)(*a, **kw)
            res.append('ok')
        except Exception as e:
            after = buf.getvalue()
            res.append('%s atomic=%s' % (short(exc_info(e)), after == before))
    data = buf.getvalue()
    tail = ''
    if keep:
        tail = ' ' + read_all(io.BytesIO(data))
    return '%s | len=%d sha1=%s%s' % (';'.join(res), len(data),
                                     hashlib.sha1(data).hexdigest(), tail)


@group
def g_writer():
    """Streaming writer: codecs x spellings x texts x indent x line endings,
    multi-megabyte texts, inherited encodings, invalid arguments."""
    specs = codec_spellings()
    rnd = random.Random(11)
    # A. every spelling, small texts.
    for enc in specs:
        for ti in (1, 2, 7, 9, 10):
            t = TEXTS[ti]
            le = (None, 'unix', 'dos')[(ti + len(enc)) % 3]
            indent = (0, 1, 4, 13)[(ti + len(enc)) % 4]
            steps = [
                ('write_preamble', (t,), dict(indent=indent, line_endings=le)),
                ('write_meta', ({'k': t, 'n': 1},), {}),
                ('new_change', (), {}),
                ('write_preamble', (t,), dict(encoding=enc, indent=indent, line_endings=le, mimetype='text/plain')),
                ('write_meta', ({'k': 'v'},), dict(encoding=enc)),
                ('new_file', (), dict(encoding=enc)),
                ('write_meta', ({'path': 'p\xe9'},), {}),
                ('write_diff', (t.encode('utf-8'),), dict(encoding=enc, line_endings=le)),
            ]
            emit('w/A/%s/%d/main' % (enc, ti), write_script(steps, dict(encoding=enc)))
            emit('w/A/%s/%d/sub' % (enc, ti), write_script(steps, keep=(ti == 7)))
    # B. all texts x main codecs x indents x line endings.
    for enc in ('utf-8', 'UTF_16', 'utf-16-le', 'U32', 'utf-32-be', 'latin1', 'utf-8-sig',
                'cp1252', 'shift_jis', 'cp037', 'utf-7', 'ascii'):
        for ti, t in enumerate(TEXTS):
            for indent in (None, 0, 1, 4, 7, 100, -1, 'x', 2.5, True):
                for le in (None, 'unix', 'dos', 'mac', 5):
                    steps = [('write_preamble', (t,), dict(encoding=enc, indent=indent, line_endings=le)),
                             ('new_change', (), {}),
                             ('new_file', (), {}),
                             ('write_meta', ({'a': 1},), {}),
                             ('write_diff', (t.encode('utf-16' if ti % 2 else 'utf-8'),),
                              dict(line_endings=le, encoding=('utf-16' if ti % 2 else None)))]
                    emit('w/B/%s/%d/%r/%r' % (enc, ti, indent, le), write_script(steps, keep=(indent == 4)))
    # C. big texts around the piece/threshold sizes.
    K = 1024
    big_codecs = ['utf-8', 'UTF8', 'utf_8_sig', 'utf-16', 'U16', 'UTF-16LE', 'utf-16-be',
                  'utf-32', 'U32', 'UTF-32LE', 'latin-1', 'L1', '8859', 'ascii', '646',
                  'cp1252', 'windows-1252', 'cp1251', 'koi8-r', 'mac-roman', 'shift_jis',
                  'sjis', 'ms932', 'euc_jp', 'gb18030', 'gbk', 'big5', 'euc_kr',
                  'utf-7', 'iso2022_jp', 'iso2022_kr', 'hz', 'punycode', 'idna', 'cp037',
                  'unicode_escape', 'rot13', 'base64', 'undefined', 'unknown-x', None]
    units = {
        'ascii': 'abcdefghijklmno\n',                       # 16 chars
        'crlf': 'abcdefghijklmn\r\n',                       # CRLF straddles 64K boundaries at odd offsets
        'latin': 'caf\xe9 na\xefve \xfc\xdf\xa0xy\n',
        'bmp': 'あア亜Ａ €﻿  \u0085\x0c\x0b\n',
        'astral': '\U0001f600\U00010000 é \x00\n',
        'cyr': 'привет мир\n',
    }
    for un, unit in sorted(units.items()):
        for size in (256 * K - 1, 256 * K, 256 * K + 1, 64 * K * 5 + 1, 2 * K * K + 3):
            for shift in (0, 1):
                t = ('x' * shift) + unit * (size // len(unit) + 1)
                t = t[:size]
                for enc in big_codecs:
                    for le, indent in ((None, 0), ('dos', 3)):
                        if size > K * K and (le or enc in ('punycode', 'idna', 'unicode_escape')):
                            continue
                        steps = [('write_preamble', (t,), dict(encoding=enc, indent=indent, line_endings=le)),
                                 ('write_meta', ({'t': t[:300 * K]},), dict(encoding=enc))]
                        emit('w/C/%s/%d/%d/%s/%s' % (un, size, shift, enc, le), write_script(steps))
    # D. unencodable character late in a big text: error text and atomicity.
    for enc in ('ascii', 'latin-1', 'cp1252', 'shift_jis', 'utf-8', 'utf-16', 'utf-32', 'gbk', 'big5'):
        for pos in (0, 1, 64 * K - 1, 64 * K, 64 * K + 1, 300 * K, 512 * K - 1):
            for bad in ('€', '\ud800', '\udfff\ud800', '\U0001f600', '\x80'):
                t = 'a' * pos + bad + 'b' * (512 * K - pos) + '\n'
                steps = [('write_preamble', (t,), dict(encoding=enc)),
                         ('write_preamble', ('ok\n',), dict(encoding=enc)),
                         ('new_change', (), {}),
                         ('write_meta', ({'t': t},), dict(encoding=enc)),
                         ('write_meta', ({'t': 1},), {})]
                emit('w/D/%s/%d/%r' % (enc, pos, bad), write_script(steps))
    # E. inherited encodings: main/change/file, content sections without own.
    t_big = units['bmp'] * (300 * K // len(units['bmp']))
    t_lat = units['latin'] * (300 * K // len(units['latin']))
    for menc in ('utf-8', 'UTF-16', 'latin1', None, 'U32', 'ascii'):
        for cenc in (None, 'utf_16_le', 'utf-8-sig', 'cp1252'):
            for fenc in (None, 'UTF-32', 'l1'):
                steps = [('write_preamble', (t_lat,), {}),
                         ('write_meta', ({'big': t_lat},), {}),
                         ('new_change', (), dict(encoding=cenc)),
                         ('write_preamble', (t_big,), dict(indent=2)),
                         ('write_preamble', (t_lat,), dict(indent=2)),
                         ('write_meta', ({'big': t_big},), {}),
                         ('new_file', (), dict(encoding=fenc)),
                         ('write_meta', ({'big': t_big, 'lat': t_lat},), {}),
                         ('write_diff', (t_lat.encode('latin1'),), {}),
                         ('new_change', (), {}),
                         ('write_preamble', (t_big,), {}),
                         ('new_file', (), {}),
                         ('write_meta', ({'big': t_lat},), {})]
                emit('w/E/%s/%s/%s' % (menc, cenc, fenc),
                     write_script(steps, dict(encoding=menc), keep=True))
    # F. invalid arguments and ordering.
    class S(str):
        pass
    bad_args = [
        ('write_preamble', (b'bytes',), {}), ('write_preamble', (None,), {}),
        ('write_preamble', ('',), {}), ('write_preamble', (S('sub\n'),), {}),
        ('write_preamble', ('t',), dict(mimetype='text/html')),
        ('write_preamble', ('t',), dict(mimetype=['text/plain'])),
        ('write_preamble', ('t',), dict(encoding=12)),
        ('write_preamble', ('t',), dict(encoding=b'utf-8')),
        ('write_preamble', ('t',), dict(encoding='')),
        ('write_preamble', ('t',), dict(encoding='utf 8')),
        ('write_preamble', ('t',), dict(encoding='utf-8\xe9')),
        ('write_preamble', ('t',), dict(bogus=1)),
        ('write_meta', ({},), {}), ('write_meta', ([1],), {}), ('write_meta', ('s',), {}),
        ('write_meta', ({'a': {1, 2}},), {}), ('write_meta', ({'a': 1},), dict(meta_format='yaml')),
        ('write_meta', ({'a': 1},), dict(meta_format=['json'])),
        ('write_meta', ({1: 'a', '1': 'b'},), {}), ('write_meta', ({'a': float('nan')},), {}),
        ('write_meta', ({'a': '\ud800'},), {}), ('write_meta', ({'a': 1},), dict(encoding='ascii')),
        ('write_diff', ('str',), {}), ('write_diff', (b'',), {}), ('write_diff', (bytearray(b'x'),), {}),
        ('write_diff', (b'x',), dict(diff_type='patch')), ('write_diff', (b'x',), dict(diff_type='binary')),
        ('write_diff', (b'x',), dict(line_endings='DOS')), ('write_diff', (b'x',), dict(encoding='nope')),
        ('new_change', (), dict(encoding='caf\xe9')), ('new_file', (), dict(encoding='x y')),
        ('new_change', (), {}), ('new_file', (), {}), ('write_meta', ({'a': 1},), {}),
        ('write_preamble', ('p',), {}), ('write_diff', (b'd',), {}),
    ]
    for i in range(4000):
        steps = [rnd.choice(bad_args) for _ in range(rnd.randint(1, 7))]
        mk = rnd.choice([{}, {}, dict(encoding='utf-16'), dict(encoding=None), dict(version='2.0'),
                         dict(version='1.0', encoding='latin1'), dict(encoding='nope')])
        emit('w/F/%d' % i, write_script(steps, mk))


def typed(v):
    if isinstance(v, (list, tuple)):
        return '%s[%s]' % (type(v).__name__, ', '.join(typed(x) for x in v))
    if isinstance(v, dict):
        return '{%s}' % ', '.join('%r: %s' % (k, typed(x)) for k, x in v.items())
    return '%s:%r' % (type(v).__name__, v)


@group
def g_split():
    """split_lines(): exhaustive small inputs, window-edge cases, odd types."""
    import itertools
    from pydiffx.utils.text import split_lines
    nls = [b'\n', b'\r\n', b'\n\x00', b'\x00\n', b'\r\x00\n\x00', b'\x00\r\x00\n',
           b'\n\x00\x00\x00', b'\x00\x00\x00\n', b'\r\x00\x00\x00\n\x00\x00\x00',
           b'\x00\x00\x00\r\x00\x00\x00\n', b'%', b'\r%', b'aa', b'aba', b'\n\n', b'\x00\x00']

    def both(data, nl):
        def f():
            a = split_lines(data, nl, keep_ends=True)
            b = split_lines(data=data, newline=nl)
            c = split_lines(data, nl, False)
            return hashlib.sha1((typed(a) + '|' + typed(b) + '|' + typed(c)).encode()).hexdigest()[:16] \
                + ' %d %d' % (len(a), len(b))
        return attempt(f)
    alpha = [b'\r', b'\n', b'\x00', b' ', b'a', b'b', b'%']
    for n in range(0, 7):
        for tup in itertools.product(alpha, repeat=n):
            data = b''.join(tup)
            for nl in nls if n <= 4 else (nls[:6] if n == 5 else nls[1:5:3]):
                emit('split/x/%r/%r' % (data, nl), both(data, nl))
    rnd = random.Random(8)
    for i in range(3000):
        nl = rnd.choice(nls)
        pieces = []
        for _ in range(rnd.randint(0, 30)):
            r = rnd.random()
            if r < 0.35:
                pieces.append(nl)
            elif r < 0.5:
                pieces.append(nl[:rnd.randint(0, len(nl))])
            elif r < 0.6:
                pieces.append(nl[rnd.randint(0, len(nl)):])
            else:
                pieces.append(bytes(rnd.choice(b'\r\n\x00 ab%') for _ in range(rnd.randint(0, 9))))
        data = b''.join(pieces)
        emit('split/r/%d' % i, both(data, nl))
    # Window edges: data sizes and newline positions around powers of two.
    for W in (1 << 12, 1 << 13, 1 << 14, 1 << 15, 1 << 16, 1 << 17, 1 << 20):
        for nl in nls[:10]:
            for off in range(-len(nl) - 1, 3):
                for fill in (b'x', b'\x00', b'\r'):
                    d = fill * (W + off) + nl + fill * 5 + nl
                    emit('split/w/%d/%r/%d/%r/a' % (W, nl, off, fill), both(d, nl))
                    d = (fill * 7 + nl) * (W // (7 + len(nl))) + fill * ((off + 64) % 64) + nl + nl + fill
                    emit('split/w/%d/%r/%d/%r/b' % (W, nl, off, fill), both(d, nl))
    big = (b'line with some text \xe9\r\n' * 150000)
    for nl in (b'\n', b'\r\n', b'\r', b'zz'):
        emit('split/big/%r' % nl, both(big, nl))
        emit('split/big1/%r' % nl, both(big[:-1], nl))
    # Odd argument types.
    odd = [(b'', b'\n'), (b'a', b''), ('a\nb', '\n'), ('a\nb\n', '\n'), ('a\nb', b'\n'), (b'a\nb', '\n'),
           (bytearray(b'a\nb\n'), b'\n'), (bytearray(b'a\nb'), bytearray(b'\n')), (b'a\nb', bytearray(b'\n')),
           (memoryview(b'a\nb'), b'\n'), (None, b'\n'), (b'a', None), (5, b'\n'), ([b'a'], b'\n'),
           (type('B', (bytes,), {})(b'a\nb\n'), b'\n'), (b'a\nb\n', type('B', (bytes,), {})(b'\n')),
           (b'a\nb', 10), (b'a\nb', (b'\n',))]
    for i, (d, nl) in enumerate(odd):
        for ke in (True, False, 1, 0, None, 'yes'):
            emit('split/odd/%d/%r' % (i, ke), attempt(lambda: typed(split_lines(d, nl, ke))))
            emit('split/oddkw/%d/%r' % (i, ke), attempt(lambda: typed(split_lines(data=d, newline=nl, keep_ends=ke))))
    # Helpers in the same module.
    from pydiffx.utils import text as T
    for enc in codec_spellings() + [None, 12, b'utf-8', '', ['utf-8']]:
        for le in ('unix', 'dos', 'mac', None, 5):
            emit('text/nl/%r/%r' % (enc, le), attempt(lambda: typed(T.get_newline_for_type(le, encoding=enc))))
        for t in (b'a\nb', b'a\r\nb', b'a\x00\n\x00', b'\xff\xfea\x00\r\x00\n\x00', b'', 'a\r\nb', 'ab', b'\r\n', b'a%b\r%'):
            emit('text/guess/%r/%r' % (enc, t), attempt(lambda: typed(T.guess_line_endings(t, encoding=enc))))
        for d in (b'\xef\xbb\xbfx', b'\xff\xfex\x00', b'\xfe\xff\x00x', b'\xff\xfe\x00\x00x', b'x', b''):
            emit('text/bom/%r/%r' % (enc, d), attempt(lambda: typed(T.strip_bom(d, enc))))


def gen_hunks(rnd, nh=None):
    """Generate lines for hunks with known geometry."""
    lines = []
    for _ in range(nh if nh is not None else rnd.randint(0, 4)):
        kind = rnd.choice(('mixed', 'ins', 'del', 'ins', 'del', 'ctx', 'empty'))
        body = []
        o = m = 0
        if kind == 'mixed':
            for _ in range(rnd.randint(1, 12)):
                c = rnd.choice(b' -+')
                body.append(bytes([c]) + rnd.choice([b'x', b'', b'-- a/f', b'++ b/f', b'@@ -1 +1 @@', b'\\ No newline']))
                if c in b' -':
                    o += 1
                if c in b' +':
                    m += 1
        elif kind == 'ins':
            m = rnd.choice((1, 2, 3, 50, 300))
            body = [b'+' + rnd.choice([b'', b'x', b'++ b/f', b'@@ -1 +1 @@', b'+', b'-']) for _ in range(m)]
        elif kind == 'del':
            o = rnd.choice((1, 2, 3, 50, 300))
            body = [b'-' + rnd.choice([b'', b'x', b'-- a/f', b'@@ -1 +1 @@', b'-', b'+']) for _ in range(o)]
        elif kind == 'ctx':
            o = m = rnd.randint(1, 4)
            body = [b' c'] * o
        if body and rnd.random() < 0.3:
            body.insert(rnd.randint(0, len(body)), b'\\ No newline at end of file')
        if body and rnd.random() < 0.1:
            body.append(rnd.choice([b'\\ No newline at end of file', b'  \\ No newline at end of file  ']))
        os_, ms = rnd.choice((0, 1, 5, 10 ** 6)), rnd.choice((0, 1, 7, 10 ** 6))

        def rng(s, n):
            if n == 1 and rnd.random() < 0.5:
                return b'%d' % s
            return b'%d,%d' % (s, n)
        h = b'@@ -' + rng(os_, o) + b' +' + rng(ms, m) + b' @@' + rnd.choice([b'', b' ctx()', b' ', b' @@ x'])
        lines.append(h)
        lines += body
        if rnd.random() < 0.3:
            lines += rnd.choice([[b'garbage'], [b'diff --git a b', b'index 1..2', b'--- a', b'+++ b'], [b''], [b'@@ nope']])
    return lines


@group
def g_hunks():
    """get_unified_diff_hunks(): generated hunks, damages, odd inputs."""
    from pydiffx.utils.unified_diffs import get_unified_diff_hunks as G
    rnd = random.Random(21)

    def run(lines, ig):
        def f():
            before = list(lines) if isinstance(lines, list) else None
            r = G(lines, ignore_garbage=ig)
            assert before is None or before == lines
            return repr(r)
        return attempt(f)
    fixed = [
        [], [b''], [b'@@ -1 +1 @@'], [b'@@ -1,0 +1,0 @@'], [b'@@ -1,0 +1,0 @@', b'+a'],
        [b'@@ -0,0 +1,2 @@', b'+a', b'+b'], [b'@@ -0,0 +1,2 @@', b'+a'], [b'@@ -0,0 +1,2 @@', b'+a', b'-b'],
        [b'@@ -0,0 +1,2 @@', b'+a', b' b'], [b'@@ -0,0 +1,2 @@', b'+a', b'\\ No newline at end of file', b'+b'],
        [b'@@ -0,0 +1,2 @@', b'+a', b'+b', b'\\ No newline at end of file'],
        [b'@@ -0,0 +1,2 @@', b'+a', b'+b', b'+c'], [b'@@ -0,0 +1,2 @@', b'+a', b'@@ -1 +1 @@'],
        [b'@@ -1,2 +0,0 @@', b'-a', b'-b'], [b'@@ -1,2 +0,0 @@', b'-a', b'+b'], [b'@@ -1,2 +0,0 @@', b'-a'],
        [b'@@ -1,2 +0,0 @@', b'-a', b'-b', b'@@ -9,1 +8,0 @@', b'-z', b'x'],
        [b'@@ -1,2 +1 @@', b'-a', b'-b', b'+c'], [b'@@ -1 +1,0 @@', b'-a'], [b'@@ -1,0 +1 @@', b'+a'],
        [b'@@ -0,0 +1,2 @@', '+a', b'+b'], [b'@@ -0,0 +1,2 @@', b'+a', '+b'], [b'@@ -0,0 +1,3 @@', b'+a', b'x', 'str'],
        [b'@@ -0,0 +1,2 @@', b'+a', None], ['@@ -0,0 +1,2 @@'], [None], [5],
        [b'@@ -0,0 +1,' + b'9' * 5000 + b' @@', b'+a'], [b'@@ -0,0 +1,99999999999 @@', b'+a'],
        [b'@@ -0,0 +1,2 @@\n', b'+a\n', b'+b\n'], [b'@@ -0,0 +1,2 @@\r', b'+a\r', b'+b\r'],
        [b'garbage', b'@@ -0,0 +1,1 @@', b'+a'], [b'@@ -0,0 +1,1 @@', b'+a', b'garbage', b'@@ -0,0 +5,1 @@', b'+a'],
        [bytearray(b'@@ -0,0 +1,1 @@'), bytearray(b'+a')],
    ]
    for i, lines in enumerate(fixed):
        for ig in (False, True):
            emit('hunks/fixed/%d/%s' % (i, ig), run(lines, ig))
            try:
                emit('hunks/fixedt/%d/%s' % (i, ig), run(tuple(lines), ig))
                it = iter(lines)
                emit('hunks/fixedg/%d/%s' % (i, ig), run(it, ig) + ' rest=%d' % len(list(it)))
            except Exception:
                pass
    for i in range(6000):
        lines = gen_hunks(rnd)
        if i % 2:
            # damage
            for _ in range(rnd.choice((1, 1, 2))):
                if not lines:
                    break
                p = rnd.randrange(len(lines))
                op = rnd.randrange(5)
                if op == 0:
                    del lines[p]
                elif op == 1:
                    lines.insert(p, rnd.choice([b'x', b'', b'+i', b'-d', b' c', b'@@ -1 +1 @@', b'@@', b'\\ No newline at end of file']))
                elif op == 2:
                    lines[p] = rnd.choice([b'x', b'', b'+i', b'-d', b' c', b'@@ -3,0 +3,2 @@', b'@@ -3,2 +3,0 @@'])
                elif op == 3:
                    del lines[p:]
                else:
                    lines[p] = lines[p][1:]
        for ig in (False, True):
            emit('hunks/gen/%d/%s' % (i, ig), run(lines, ig))
    # big one-sided hunks
    for n in (1000, 65536, 200000):
        for pref in (b'+', b'-'):
            h = b'@@ -1,%d +1,%d @@' % ((0, n) if pref == b'+' else (n, 0))
            base = [h] + [pref + b'line %d' % k for k in range(n)]
            emit('hunks/big/%d/%r/ok' % (n, pref), run(base, True))
            emit('hunks/big/%d/%r/short' % (n, pref), run(base[:-1], True))
            emit('hunks/big/%d/%r/long' % (n, pref), run(base + [pref + b'extra'], False))
            mid = list(base)
            mid[n // 2] = b' ctx'
            emit('hunks/big/%d/%r/ctx' % (n, pref), run(mid, True))
            mid[n // 2] = b'\\ No newline at end of file'
            emit('hunks/big/%d/%r/marker' % (n, pref), run(mid, True))
            mid[n // 2] = b'bad'
            emit('hunks/big/%d/%r/bad' % (n, pref), run(mid, True))
            emit('hunks/big/%d/%r/twice' % (n, pref), run(base + [b'x'] + base, True))


def tree_dump(d):
    """Full, type-sensitive dump of a DOM tree."""
    def secd(s):
        try:
            out = '%s(%s, opts=%s' % (type(s).__name__, s.section_id,
                                      typed(dict(s.options)) if isinstance(s.options, dict) else typed(s.options))
            if hasattr(s, '_content'):
                out += ', content=%s' % typed(s.content)
            else:
                out += ', subs=[%s]' % ', '.join(secd(x) for x in s.subsections)
        except Exception as e:
            return 'DUMPERR(%s)' % exc_info(e)
        return out + ')'
    return secd(d)


def shared_mutables(trees):
    """Return a list of (path, path) pairs of distinct sections sharing a
    mutable object (options dict, content dict, nested stats dict)."""
    seen = {}
    dups = []

    def walk_val(v, path):
        if isinstance(v, (dict, list)):
            if id(v) in seen and seen[id(v)][1] is v:
                dups.append('%s==%s' % (seen[id(v)][0], path))
            seen[id(v)] = (path, v)
            for k, x in (v.items() if isinstance(v, dict) else enumerate(v)):
                walk_val(x, '%s/%s' % (path, k))

    def walk(s, path):
        if not hasattr(s, 'options'):
            return
        walk_val(s.options, path + '.options')
        if hasattr(s, '_content'):
            walk_val(s.content, path + '.content')
        else:
            for i, x in enumerate(s.subsections):
                walk(x, '%s[%d]' % (path, i))
    for ti, t in enumerate(trees):
        walk(t, 't%d' % ti)
    return dups


def make_diff(rnd, enc=None, dos=False):
    lines = gen_hunks(rnd)
    if rnd.random() < 0.5:
        lines = [b'--- a/x', b'+++ b/x'] + lines
    nl = b'\r\n' if dos else b'\n'
    data = nl.join(lines) + (nl if rnd.random() < 0.8 else b'')
    if enc:
        data = data.decode('latin1').encode(enc)
    return data


@group
def g_stats():
    """generate_stats(): exactness, idempotence, edits between runs, shared
    diffs, two live trees, pre-existing stats, odd option values."""
    import logging
    from pydiffx.dom.objects import DiffX
    logs = []

    class H(logging.Handler):
        def emit(self, record):
            logs.append(record.getMessage()[:120])
    logging.getLogger('pydiffx').addHandler(H())
    logging.getLogger('pydiffx').setLevel(logging.DEBUG)
    logging.getLogger('pydiffx').propagate = False
    rnd = random.Random(77)
    shared_diff = make_diff(random.Random(1))
    for i in range(400):
        trees = []
        for t in range(2):
            d = DiffX()
            if rnd.random() < 0.3:
                d.meta = {'stats': {'custom': [1, 2], 'files': 99}, 'other': {'a': 1}}
            for c in range(rnd.randint(0, 3)):
                ch = d.add_change()
                if rnd.random() < 0.3:
                    ch.meta = {'stats': {'insertions': 5, 'x': 'y'}}
                for f in range(rnd.randint(0, 4)):
                    fl = ch.add_file(meta={'path': 'f%d' % f})
                    r = rnd.random()
                    enc = rnd.choice((None, None, 'utf-8', 'utf-16', 'UTF_32', 'latin1', 'nope', 'ascii'))
                    dos = rnd.random() < 0.4
                    if r < 0.15:
                        pass
                    elif r < 0.3:
                        fl.diff = shared_diff
                    else:
                        try:
                            fl.diff = make_diff(rnd, enc if enc not in ('nope', 'ascii') else None, dos)
                        except Exception:
                            fl.diff = b'@@ -1 +1 @@\n-a\n+b\n'
                    if enc:
                        fl.diff_encoding = enc
                    if rnd.random() < 0.4:
                        fl.diff_line_endings = 'dos' if (dos ^ (rnd.random() < 0.2)) else 'unix'
                    if rnd.random() < 0.1:
                        fl.diff_type = rnd.choice(('binary', 'text'))
                    if rnd.random() < 0.2:
                        fl.meta['stats'] = {'deletions': 1000, 'mine': True}
            trees.append(d)
        a, b = trees
        steps = []

        def snap(tag):
            steps.append('%s:%s' % (tag, hashlib.sha1(
                (tree_dump(a) + tree_dump(b)).encode('utf-8', 'backslashreplace')).hexdigest()[:12]))
            steps.append('shared=%r' % shared_mutables(trees))
        steps.append(attempt(a.generate_stats))
        snap('a1')
        steps.append(attempt(b.generate_stats))
        snap('b1')
        steps.append(attempt(a.generate_stats))
        snap('a2')
        # edits
        files = [f for t in trees for c in t.changes for f in c.files]
        for _ in range(rnd.randint(0, 3)):
            if not files:
                break
            f = rnd.choice(files)
            op = rnd.randrange(7)
            if op == 0:
                f.diff = (f.diff or b'') + b'@@ -1,0 +1,2 @@\n+x\n+y\n'
            elif op == 1:
                f.diff = rnd.choice(files).diff or b'@@ -1 +0,0 @@\n-gone\n'
            elif op == 2 and 'stats' in f.meta:
                f.meta['stats']['insertions'] = -5
                f.meta['stats']['injected'] = 'x'
            elif op == 3:
                f.meta.pop('stats', None)
            elif op == 4:
                f.diff_line_endings = rnd.choice(('dos', 'unix'))
            elif op == 5:
                f.diff_section.options['line_endings'] = rnd.choice(('mac', ['unix'], 5, None, ''))
            else:
                f.diff_section.options['encoding'] = rnd.choice((12, ['utf-8'], 'nope', '', None, b'utf-8', 'utf-16'))
        snap('edit')
        steps.append(attempt(b.generate_stats))
        steps.append(attempt(a.generate_stats))
        snap('ab3')
        for t in trees:
            for c in t.changes:
                steps.append(attempt(c.generate_stats))
                for f in c.files:
                    steps.append(attempt(f.generate_stats))
                    steps.append(typed(f.meta.get('stats')))
                steps.append(typed(c.meta.get('stats')))
            steps.append(typed(t.meta.get('stats')))
        snap('end')
        steps.append(attempt(lambda: hashlib.sha1(a.to_bytes()).hexdigest()))
        steps.append('logs=%d %s' % (len(logs), hashlib.sha1(repr(logs).encode('utf-8', 'backslashreplace')).hexdigest()[:10]))
        del logs[:]
        emit('stats/%d' % i, hashlib.sha1('\n'.join(steps).encode('utf-8', 'backslashreplace')).hexdigest() + ' ' + short(' '.join(steps)[-150:]))
    # A large one-sided diff, several files sharing it.
    d = DiffX()
    ch = d.add_change()
    big = b'@@ -0,0 +1,200000 @@\n' + b'+line\n' * 200000
    for k in range(4):
        f = ch.add_file(meta={'p': k}, diff=big if k != 2 else big[:-6])
    for k in range(3):
        emit('stats/big/%d' % k, attempt(lambda: (d.generate_stats(), typed(d.meta), [typed(f.meta) for f in ch.files], shared_mutables([d]))[1:]))
        ch.files[0].meta['stats']['insertions'] = 0


def small_tree(DiffX, variant=0):
    d = DiffX(preamble='main \xe9\n', meta={'k': [1, {'n': None}]})
    if variant & 1:
        d.preamble_indent = 2
        d.preamble_mimetype = 'text/markdown'
    c = d.add_change(preamble='c1\n', meta={'id': 'x'})
    if variant & 2:
        c.encoding = 'utf-16'
        c.preamble_line_endings = 'unix'
    f = c.add_file(meta={'path': 'a'}, diff=DIFF1)
    if variant & 4:
        f.diff_line_endings = 'unix'
        f.diff_type = 'text'
        f.meta_encoding = 'utf-32'
    c.add_file(meta={'path': 'b'})
    c2 = d.add_change(meta={'id': 'y'})
    c2.add_file(meta={'path': 'c'}, diff=b'bin\x00\n', diff_type='binary')
    return d


def all_sections(d):
    out = [('d', d), ('d.pre', d.preamble_section), ('d.meta', d.meta_section)]
    for i, c in enumerate(d.changes):
        out += [('c%d' % i, c), ('c%d.pre' % i, c.preamble_section), ('c%d.meta' % i, c.meta_section)]
        for j, f in enumerate(c.files):
            out += [('c%df%d' % (i, j), f), ('c%df%d.meta' % (i, j), f.meta_section),
                    ('c%df%d.diff' % (i, j), f.diff_section)]
    return out


@group
def g_dom():
    """Typed attributes, constructors, equality, DOM writer and reader."""
    from pydiffx.dom.objects import DiffX
    from pydiffx.dom.reader import DiffXDOMReader
    from pydiffx.dom.writer import DiffXDOMWriter
    from pydiffx.dom import properties as P

    class S(str):
        pass

    class I(int):
        pass
    names = ['encoding', 'version', 'meta', 'meta_encoding', 'meta_format', 'preamble',
             'preamble_encoding', 'preamble_indent', 'preamble_line_endings', 'preamble_mimetype',
             'diff', 'diff_encoding', 'diff_line_endings', 'diff_type', 'content', 'indent',
             'line_endings', 'mimetype', 'format', 'type', 'options', 'section_id', 'section_name',
             'subsections', 'changes', 'files', 'bogus', 'length', '_level', '_content', 'default_options',
             'meta_section', 'diff_section', 'preamble_section', 'data_type']
    values = [None, 'utf-8', 'UTF-16', '', 'dos', 'unix', 'DOS', 'mac', 'text', 'binary', 'json', 'yaml',
              'text/plain', 'text/markdown', 'text/html', '1.0', '2.0', 1.0, 0, 4, -1, 10 ** 30, True,
              False, 2.5, b'x', b'', bytearray(b'x'), {}, {'a': 1}, [], ['dos'], ('unix',), {'dos'},
              S('dos'), S('nope'), I(3), 'x\ny', 'caf\xe9', object]
    # 1. assignment matrix on every section of a tree.
    for nm in names:
        for vi, v in enumerate(values):
            d = small_tree(DiffX, 7)
            res = []
            for label, sec_ in all_sections(d):
                before = tree_dump(d)
                try:
                    setattr(sec_, nm, v)
                    r = 'ok'
                except Exception as e:
                    r = short(exc_info(e)) + ' atomic=%s' % (tree_dump(d) == before)
                try:
                    got = typed(getattr(sec_, nm)) if nm not in ('subsections', 'changes', 'files', 'meta_section', 'diff_section', 'preamble_section') else 'sec'
                except Exception as e:
                    got = short(exc_info(e))
                res.append('%s=%s>%s' % (label, r, short(got)))
            res.append(attempt(lambda: hashlib.sha1(d.to_bytes()).hexdigest()[:12]))
            emit('dom/set/%s/%d' % (nm, vi), hashlib.sha1('|'.join(res).encode('utf-8', 'backslashreplace')).hexdigest()[:16] + ' ' + short('|'.join(res)[:140]))
    # 2. constructors.
    for nm in names:
        for vi, v in enumerate(values):
            def f(kind):
                if kind == 0:
                    x = DiffX(**{nm: v})
                elif kind == 1:
                    d = DiffX()
                    n0 = len(d.changes)
                    try:
                        x = d.add_change(**{nm: v})
                    except Exception as e:
                        return exc_info(e) + ' n=%d' % (len(d.changes) - n0)
                else:
                    d = DiffX()
                    c = d.add_change()
                    try:
                        x = c.add_file(**{nm: v})
                    except Exception as e:
                        return exc_info(e) + ' n=%d' % len(c.files)
                return tree_dump(x)
            for kind in range(3):
                emit('dom/ctor/%s/%d/%d' % (nm, vi, kind), attempt(f, kind))
    # 3. equality / perturbation.
    base = small_tree(DiffX, 7)
    emit('dom/eq/self', typed([base == base, base != base, base == small_tree(DiffX, 7), base == small_tree(DiffX, 3),
                               base == None, base == 5, base.changes[0] == base.changes[1],
                               base.meta_section == small_tree(DiffX, 7).meta_section,
                               base.meta_section == base.changes[0].meta_section]))
    perturbs = [('encoding', 'latin1'), ('preamble', 'other\n'), ('meta', {'z': 1}), ('preamble_indent', 9),
                ('meta_format', 'json'), ('diff', b'@@ -1 +1 @@\n-x\n+y\n'), ('diff_type', 'binary'),
                ('diff_line_endings', 'dos'), ('preamble_mimetype', 'text/plain'), ('version', '1.0')]
    for (label, _) in all_sections(base):
        for nm, v in perturbs:
            o = small_tree(DiffX, 7)
            target = dict(all_sections(o))[label]
            def f():
                setattr(target, nm, v)
                ba, bb = base.to_bytes(), o.to_bytes()
                return typed([base == o, o == base, base != o, ba == bb])
            emit('dom/eq/%s/%s' % (label, nm), attempt(f))
        o = small_tree(DiffX, 7)
        dict(all_sections(o))[label].options['extra'] = 'v'
        emit('dom/eq/%s/extraopt' % label, typed([base == o, attempt(o.to_bytes)]))
    # 4. writer: odd options set directly on each section.
    optsets = [{'bogus': 1}, {'length': 5}, {'indent': 3}, {'type': 'text'}, {'format': 'json'}, {'diff_type': 'text'},
               {'meta_format': 'json'}, {'line_endings': 'dos'}, {'mimetype': 'text/plain'}, {'version': '1.0'},
               {'encoding': None}, {'encoding': 12}, {'encoding': 'nope'}, {'indent': 'x'}, {'indent': None},
               {'b': 1, 'a': 2}, {'a': 2, 'b': 1}, {'section_name': 'x'}, {'self': 1}, {'text': 'x'}, {'content': b'x'},
               {'metadata': {}}, {'fp': None}, {'stream': None}, {'line_endings': 'mac'}, {'type': 'nope'},
               {'format': 'yaml'}, {'mimetype': 'x/y'}, {'version': '9'}, {1: 2}, {'': 1}, {'a-b': 1}]
    w = DiffXDOMWriter()
    for (label, _) in all_sections(base):
        for oi, o in enumerate(optsets):
            for mode in ('update', 'replace'):
                d = small_tree(DiffX, 5)
                t = dict(all_sections(d))[label]
                if mode == 'replace':
                    t.options.clear()
                t.options.update(o)
                before = tree_dump(d)

                def f():
                    s = io.BytesIO()
                    try:
                        w.write_stream(d, s)
                    except Exception as e:
                        return exc_info(e) + ' partial=%s' % hashlib.sha1(s.getvalue()).hexdigest()[:10]
                    return hashlib.sha1(s.getvalue()).hexdigest()
                emit('dom/wopt/%s/%d/%s' % (label, oi, mode), attempt(f) + ' same=%s' % (tree_dump(d) == before))
    # 5. reader: corpus + option variations, stream closing, reuse.
    files = reader_corpus()
    b = files['base']
    extra = {
        'chg_unknown': b.replace(b'\n#.change:', b'\n#.change: foo=bar', 1),
        'chg_encint': b.replace(b'\n#.change:', b'\n#.change: encoding=12', 1),
        'chg_len': b.replace(b'\n#.change:', b'\n#.change: length=12', 1),
        'file_unknown': b.replace(b'#..file:', b'#..file: a-b=1', 1),
        'file_diff': b.replace(b'#..file:', b'#..file: diff=x', 1),
        'file_meta': b.replace(b'#..file:', b'#..file: meta=x', 1),
        'main_unknown': b.replace(b'#diffx: ', b'#diffx: zzz=1, ', 1),
        'meta_list': hdr('diffx', version='1.0', encoding='utf-8') + sec('.meta', b'[1]\n'),
        'meta_str': hdr('diffx', version='1.0', encoding='utf-8') + sec('.meta', b'"s"\n'),
        'meta_null': hdr('diffx', version='1.0', encoding='utf-8') + sec('.meta', b'null\n'),
        'meta_deep': hdr('diffx', version='1.0', encoding='utf-8') + sec('.meta', b'[' * 100000 + b']' * 100000 + b'\n'),
        'pre_noenc': hdr('diffx', version='1.0') + sec('.preamble', b'x\n'),
        'pre_unknownopt': hdr('diffx', version='1.0', encoding='utf-8') + sec('.preamble', b'x\n', foo='bar', indent=0),
        'diff_opts': hdr('diffx', version='1.0') + hdr('.change') + hdr('..file') + sec('...meta', b'{"a": 1}\n', zz=1) + sec('...diff', b'x\n', type='weird', encoding='nope', foo=1),
        'pre_indentstr': hdr('diffx', version='1.0', encoding='utf-8') + sec('.preamble', b'x\n', indent='abc'),
    }
    files.update(extra)
    r = DiffXDOMReader(DiffX)
    live = []
    for fn, data in sorted(files.items()):
        for kn, mk in sorted(stream_kinds(False).items()):
            s = mk(data)

            def f():
                x = r.parse(s)
                live.append(x)
                out = x.to_bytes()
                y = DiffX.from_bytes(out)
                return '%s rt=%s fix=%s eq=%s' % (hashlib.sha1(tree_dump(x).encode('utf-8', 'backslashreplace')).hexdigest()[:16],
                                                  out == data, y.to_bytes() == out, x == y)
            res = attempt(f)
            closed = getattr(s, 'closed', None)
            if closed is None:
                closed = s._b.closed
            emit('dom/read/%s/%s' % (fn, kn), '%s closed=%s' % (res, closed))
    emit('dom/read/shared', typed(shared_mutables(live[:40])))
    # mutate one parse result; others unchanged
    if len(live) > 3:
        snap = [tree_dump(x) for x in live[1:6]]
        live[0].meta['new'] = 1
        live[0].options['encoding'] = 'zzz'
        if live[0].changes:
            live[0].changes[0].meta['q'] = 2
        emit('dom/read/isolated', typed([tree_dump(x) for x in live[1:6]] == snap))
    # 6. truncations/corruptions through from_bytes.
    small = build_file(nchanges=1, nfiles=1, text='a\n b\n', indent=2)
    for cut in range(len(small) + 1):
        emit('dom/trunc/%d' % cut, attempt(lambda: hashlib.sha1(tree_dump(DiffX.from_bytes(small[:cut])).encode()).hexdigest()[:12]))
    rnd = random.Random(4)
    for i in range(1500):
        dd = bytearray(small)
        for _ in range(rnd.choice((1, 2))):
            p = rnd.randrange(len(dd))
            dd[p] = rnd.choice(b'\n\r #.:=,0919azAZ\x00\xff-_/{}[]"')
        emit('dom/corrupt/%d' % i, attempt(lambda: hashlib.sha1(tree_dump(DiffX.from_bytes(bytes(dd))).encode('utf-8', 'backslashreplace')).hexdigest()[:12]))
    # 7. property class attributes and reprs.
    for nm in sorted(dir(P)):
        o = getattr(P, nm)
        if isinstance(o, type) and issubclass(o, P.OptionProperty):
            emit('dom/propcls/%s' % nm, typed([o.option_name, repr(o.data_type), sorted(o.choices) if o.choices else o.choices, o.default]))
    emit('dom/repr', repr(small_tree(DiffX, 7)) + repr(small_tree(DiffX, 7).changes[0].files[0].diff_section))
    emit('dom/slots', attempt(lambda: setattr(small_tree(DiffX, 0), 'newattr', 1)))
    emit('dom/descr', attempt(lambda: typed([type(DiffX.__dict__['version']).__name__,
                                              type(DiffX.__mro__[1].__dict__.get('encoding')).__name__])))


@group
def g_hdrx():
    """Header grammar: exhaustive option strings over a small alphabet."""
    import itertools
    alpha = [b'a', b'Z', b'1', b'-', b'_', b'.', b'/', b'=', b',', b' ', b'+', b'\t', b'\xe9', b'#', b':']
    tail = b'\n#.change: x=1\n'
    n = 0
    for L in range(0, 5):
        for tup in itertools.product(alpha, repeat=L):
            o = b''.join(tup)
            for prefix in (b'#diffx: version=1.0, ', b'#diffx: ', b'#diffx:'):
                if prefix != b'#diffx: version=1.0, ' and L > 3:
                    continue
                emit('hdrx/%r/%r' % (prefix[7:], o), read_all(io.BytesIO(prefix + o + tail)))
    small = [b'a', b'1', b'-', b'=', b',', b' ']
    for L in (5, 6, 7):
        for tup in itertools.product(small, repeat=L):
            o = b''.join(tup)
            emit('hdrx/s/%r' % o, read_all(io.BytesIO(b'#diffx: version=1.0, ' + o + tail)))
    # section ids
    for dots in range(0, 6):
        for name in (b'diffx', b'preamble', b'meta', b'change', b'file', b'diff', b'Diffx', b'diffs', b'', b'x'):
            for sep in (b':', b': ', b':  ', b'', b' :', b':\t'):
                for opt in (b'', b'version=1.0', b'length=2', b'length=2, version=1.0'):
                    d = b'#' + b'.' * dots + name + sep + opt + b'\nx\n'
                    emit('hdrx/id/%r' % d, read_all(io.BytesIO(d)))
                    d2 = b'#diffx: version=1.0\n' + d
                    emit('hdrx/id2/%r' % d, read_all(io.BytesIO(d2)))
    # integer conversions
    for v in (b'0', b'-0', b'00', b'007', b'-7', b'--7', b'7-', b'-', b'1.0', b'1_0', b'1e5', b'0x10', b'9' * 4300,
              b'9' * 4301, b'-' + b'9' * 4300, b'-' + b'9' * 4301, b'1' + b'0' * 10000, b'1/2', b'12a', b'a12'):
        for pos in (0, 1):
            d = (b'#diffx: version=1.0, k=' + v + b'\n') if pos else (b'#diffx: k=' + v + b', version=1.0\n')
            emit('hdrx/int/%d/%s' % (pos, short(v)), read_all(io.BytesIO(d)))


@group
def g_lexer():
    """Pygments lexer: identical token streams for a broad set of texts."""
    from pydiffx.integrations.pygments_lexer import DiffXLexer
    from pygments.lexers import guess_lexer
    lx = DiffXLexer()
    lx2 = DiffXLexer(stripnl=False, ensurenl=False)

    def toks(text):
        def f():
            a = list(lx.get_tokens_unprocessed(text))
            b = list(lx.get_tokens(text))
            c = list(lx2.get_tokens(text))
            assert ''.join(v for _, _, v in a) == text
            s = repr(a) + repr(b) + repr(c)
            return '%d %s' % (len(a), hashlib.sha1(s.encode('utf-8', 'backslashreplace')).hexdigest())
        return attempt(f)
    emit('lexer/attrs', typed([lx.name, lx.aliases, lx.filenames, lx.mimetypes]))
    for t in ('Index: x', 'diff --git', '--- a', '#diffx:', '', 'x'):
        emit('lexer/analyse/%r' % t, attempt(lambda: typed(DiffXLexer.analyse_text(t))))
    files = reader_corpus()
    for fn, data in sorted(files.items()):
        emit('lexer/corpus/%s' % fn, toks(data.decode('latin1')))
        emit('lexer/corpus8/%s' % fn, toks(data.decode('utf-8', 'replace')))
    rnd = random.Random(31)
    pieces = ['#diffx:', '#.change:', '#..file:', '#.preamble:', '#..preamble:', '#.meta:', '#..meta:',
              '#...meta:', '#...diff:', '#....diff:', '#.diff:', '#..diff:', '#...preamble:', '#diffx', '#.',
              '#..', '#...', '#.x', '#...d', ' ', ' ', '\n', '\n', '\n', '\r\n', 'length=5', 'version=1.0',
              ', ', 'encoding=utf-8', '{"a": 1}', '{', '}', '"k": [1, 2.5, null, true]', 'text \xe9',
              '...\n', '...', 'delta 12\n', 'delta 12', 'delta x\n', 'delta', '@@ -1 +1 @@\n', '-old\n', '+new\n',
              ' ctx\n', 'diff --git a/x b/x\n', 'index 1234..5678 100644\n', 'new file mode 100644\n',
              'deleted file mode 100644\n', 'old mode 100644\n', 'new mode 100755\n', 'similarity index 90%\n',
              'rename from a\n', 'rename to b\n', 'copy from a\n', 'copy to b\n', 'Binary files a and b differ\n',
              'GIT binary patch\n', 'literal 5\n', '--- a/x\n', '+++ b/x\n', 'Index: foo\n', '====\n', '! bang\n',
              '< lt\n', '> gt\n', '1,2c3\n', '\\ No newline at end of file\n', '\t', '\x00', ' ', '\x85',
              '\x0c', '﻿', 'a', '#', ':', '.', '\\']
    for i in range(6000):
        n = rnd.randint(0, 25)
        text = ''.join(rnd.choice(pieces) for _ in range(n))
        emit('lexer/rnd/%d' % i, toks(text))
    dpieces = [p for p in pieces if not p.startswith('#')] + ['diff --git a b\n', 'diff --git ', 'diff --git', 'diff -r\n',
               'index ', 'index\n', ' index 1..2\n', 'new file mode', 'rename from', '\n', '\n', 'x\n', '-\n', '+\n', ' \n',
               '#', '#.x', '#.', 'diff --git a b\nindex 1..2\nnew file mode 5\n', '...\n', 'delta 3\n']
    for i in range(8000):
        n = rnd.randint(0, 14)
        body = ''.join(rnd.choice(dpieces) for _ in range(n))
        head = rnd.choice(['#...diff:\n', '#...diff: length=9\n', '#diffx:\n#...diff: type=text\n'])
        tail = rnd.choice(['', '', '#.change:\n', '#..file:\n#...diff:\nindex 1\n', '#...meta:\n{}\n'])
        emit('lexer/diffrnd/%d' % i, toks(head + body + tail))
    # structured: header followed by content for each content type
    heads = ['#...diff:', '#...diff: length=5', '#...diff: ', '#...diff:x', '#.meta: format=json', '#.preamble: indent=4',
             '#..meta:', '#...meta: a=b, c=d', '#..preamble:']
    bodies = ['', '\n', 'x', 'x\n', '...\n', '...\ndelta 5\n...\n@@ -1 +1 @@\n-a\n+b\n', 'delta 5\ndelta 6\nrest\n',
              'delta 5', 'delta 5\n...', 'diff --git a b\nindex 1..2\nnew file mode 1\n--- a\n+++ b\n@@ -0,0 +1 @@\n+x\n',
              'diff --git a b\nindex 1..2', '{"a": 1}\n', '{"a": [1,\n2]}\n', '    text\n    more\n', 'a\r\nb\r\n', 'no newline',
              '#.', '#.x', '#x\n', '# .change\n', 'a#.change:\n', '\n\n\n', ' \n', 'delta 5\n#..file:\n', '...\n#.change:\n',
              'index 1..2\n...\n', 'similarity index 5%\nrename from a\nrename to b\n']
    tails = ['', '#.change:\n', '#..file:\n#...meta: length=3\n{}\n', '#...diff: length=2\nx\n', '#.x', '#....diff:\n']
    for h in heads:
        for b in bodies:
            for t in tails:
                for nl in ('\n', ''):
                    text = h + nl + b + t
                    emit('lexer/st/%r' % text, toks(text))
                    emit('lexer/st2/%r' % text, toks('#diffx: version=1.0\n#.change:\n#..file:\n' + text))
    # writer-produced files
    from pydiffx.dom.objects import DiffX
    for v in range(8):
        d = small_tree(DiffX, v)
        d.encoding = 'utf-8'
        for c in d.changes:
            if c.encoding:
                c.encoding = 'utf-8'
            for f in c.files:
                if f.meta_encoding:
                    f.meta_encoding = 'utf-8'
        text = d.to_bytes().decode('utf-8', 'replace')
        emit('lexer/writer/%d' % v, toks(text))

        def hdrs():
            return [v for _, t, v in lx.get_tokens_unprocessed(text) if str(t) == 'Token.Name.Tag']
        emit('lexer/writerhdr/%d' % v, attempt(hdrs))
    big = ('#diffx: version=1.0\n#.change:\n#..file:\n#...meta: length=9\n{"a": 1}\n#...diff: length=1\n' +
           '@@ -1 +1 @@\n-a\n+b\n' * 20000)
    emit('lexer/big', toks(big))
    emit('lexer/guess', attempt(lambda: type(guess_lexer('Index: x\n--- a\n+++ b\n')).__name__))


@group
def g_consts():
    """Module-level tables: contents, lookups, and the behaviour built on them."""
    import itertools
    from pydiffx import options as O, sections as SE
    from pydiffx.utils import text as T
    from pydiffx.dom.objects import DiffX, DiffXMetaSection, BaseDiffXSection
    from pydiffx.dom.writer import DiffXDOMWriter
    from pydiffx.writer import DiffXWriter

    class S(str):
        pass

    class Obj(object):
        def __repr__(self):
            return '<obj>'
    odd = [None, 1, 1.0, True, 'text', 'dos', 'json', '1.0', 'text/plain', '.meta', 'diffx', 'utf-16', b'dos',
           ['a'], {'a'}, {'dos'}, frozenset({'dos'}), ('dos',), S('dos'), S('1.0'), {}, Obj()]

    def coll(name, c):
        emit('consts/%s/sorted' % name, attempt(lambda: typed(sorted(c))))
        emit('consts/%s/len' % name, attempt(lambda: len(c)))
        emit('consts/%s/bool' % name, bool(c))
        for i, v in enumerate(odd):
            emit('consts/%s/in/%d' % (name, i), attempt(lambda: v in c))
            emit('consts/%s/notin/%d' % (name, i), attempt(lambda: v not in c))
        emit('consts/%s/eqset' % name, attempt(lambda: typed([c == set(c), set(c) == c, c <= set(c), c | {'zz'} == set(c) | {'zz'},
                                                             sorted(c & set(c)) == sorted(c), c.isdisjoint({'zz'})])))
        emit('consts/%s/join' % name, attempt(lambda: ', '.join(sorted(c))))

    def mapping(name, m, probe):
        emit('consts/%s/keys' % name, attempt(lambda: typed(list(m))))
        emit('consts/%s/items' % name, attempt(lambda: typed([(k, sorted(v) if isinstance(v, (set, frozenset)) else
                                                               (dict(v) if hasattr(v, 'keys') else v)) for k, v in m.items()])))
        emit('consts/%s/len' % name, len(m))
        emit('consts/%s/eqdict' % name, attempt(lambda: typed([m == dict(m), dict(m) == m, sorted(m.keys()) == sorted(dict(m))])))
        def norm(x):
            # Container *types* of table values may legitimately differ
            # (set/frozenset, dict/mappingproxy); their contents may not.
            if isinstance(x, (set, frozenset)):
                return sorted(x)
            if hasattr(x, 'keys'):
                return dict(x)
            return x
        for i, v in enumerate(odd + probe):
            emit('consts/%s/get/%d' % (name, i), attempt(lambda: typed(norm(m.get(v)))))
            emit('consts/%s/getd/%d' % (name, i), attempt(lambda: typed(norm(m.get(v, 'dflt')))))
            emit('consts/%s/item/%d' % (name, i), attempt(lambda: typed(norm(m[v]))))
            emit('consts/%s/in/%d' % (name, i), attempt(lambda: v in m))
        emit('consts/%s/copy' % name, attempt(lambda: typed([type(m.copy()).__name__, m.copy() == dict(m)])))
    for cn in ('DiffType', 'LineEndings', 'MetaFormat', 'PreambleMimeType', 'SpecVersion'):
        cls = getattr(O, cn)
        coll('options.%s' % cn, cls.VALID_VALUES)
        emit('consts/options.%s/attrs' % cn, typed(sorted((k, v) for k, v in vars(cls).items() if k.isupper() and isinstance(v, str))))
    for sn in ('PREAMBLE_SECTIONS', 'META_SECTIONS', 'CONTENT_SECTIONS'):
        coll('sections.%s' % sn, getattr(SE, sn))
    emit('consts/sections/union', typed([SE.CONTENT_SECTIONS == SE.PREAMBLE_SECTIONS | SE.META_SECTIONS | {SE.Section.FILE_DIFF}]))
    mapping('sections.VALID_SECTION_STATES', SE.VALID_SECTION_STATES, ['.change', '...diff', '....x'])
    for k in list(SE.VALID_SECTION_STATES):
        coll('sections.VSS[%s]' % k, SE.VALID_SECTION_STATES[k])
    mapping('text.NEWLINE_FORMATS', T.NEWLINE_FORMATS, ['unix', 'dos', 'mac'])
    mapping('text.BOMS', T.BOMS, ['utf-8', 'utf-16', 'UTF-16', 'utf_16', 'utf-32-be', 'latin1'])
    mapping('DiffX.default_options', DiffX.default_options, ['encoding', 'version'])
    mapping('Meta.default_options', DiffXMetaSection.default_options, ['format'])
    mapping('Base.default_options', BaseDiffXSection.default_options, ['format'])
    mapping('DOMWriter._remapped_options', DiffXDOMWriter._remapped_options, ['diff', 'meta', 'preamble'])
    emit('consts/writer/attrs', typed([DiffXWriter.VERSION, DiffXWriter.DEFAULT_PREAMBLE_INDENT, DiffXWriter.DEFAULT_ENCODING]))
    # two fresh trees never share option dicts with the class-level defaults
    a, b = DiffX(), DiffX()
    a.options['x'] = 1
    a.meta_section.options['y'] = 2
    emit('consts/defaults/isolated', typed([dict(b.options), dict(b.meta_section.options), dict(DiffX.default_options),
                                            dict(DiffXMetaSection.default_options), dict(DiffX().options)]))
    # Behaviour built on the tables: every 4-call sequence on the writer.
    calls = {
        'c': ('new_change', (), {}), 'f': ('new_file', (), {}), 'p': ('write_preamble', ('t',), {}),
        'm': ('write_meta', ({'a': 1},), {}), 'd': ('write_diff', (b'x',), {}),
    }
    for L in range(1, 6):
        for seq in itertools.product('cfpmd', repeat=L):
            emit('consts/order/%s' % ''.join(seq), write_script([calls[k] for k in seq], keep=True))
    # choice errors
    for m_, kw in (('write_preamble', dict(line_endings='mac')), ('write_preamble', dict(mimetype='x')),
                   ('write_meta', dict(meta_format='x')), ('write_diff', dict(diff_type='x')), ('write_diff', dict(line_endings=None))):
        for v in odd:
            k = list(kw)[0]
            arg = {'write_preamble': 't', 'write_meta': {'a': 1}, 'write_diff': b'x'}[m_]
            emit('consts/choice/%s/%s/%s' % (m_, k, short(repr(v))),
                 write_script([('new_change', (), {}), ('new_file', (), {}), ('write_meta', ({'a': 1},), {}), (m_, (arg,), {k: v})]
                              if m_ == 'write_diff' else [(m_, (arg,), {k: v})]))
    for v in odd:
        emit('consts/version/%s' % short(repr(v)), write_script([], dict(version=v)))
    # newline helpers for every codec spelling (lazy/cached helpers), called twice.
    for rep in range(2):
        for enc in codec_spellings() + [None, 12, b'utf-8', '', ['utf-8'], ('utf-8',), S('utf-16')]:
            for le in ('unix', 'dos', 'mac', None, 5, ['unix']):
                emit('consts/nl/%d/%r/%r' % (rep, enc, le), attempt(lambda: typed(T.get_newline_for_type(le, encoding=enc))))
            for t in (b'a\nb', b'a\r\nb', b'a\x00\n\x00', b'\xff\xfea\x00\r\x00\n\x00', 'a\r\nb', 'ab', b'\r\n', b'a%b\r%', bytearray(b'a\r\n')):
                emit('consts/guess/%d/%r/%r' % (rep, enc, t), attempt(lambda: typed(T.guess_line_endings(t, encoding=enc))))
                emit('consts/guessp/%d/%r/%r' % (rep, enc, t), attempt(lambda: typed(T.guess_line_endings(t, enc))))


# GROUPS-END


def worker(libdir, name):
    sys.path.insert(0, libdir)
    import pydiffx
    assert os.path.abspath(pydiffx.__file__).startswith(libdir), pydiffx.__file__
    random.seed(12345)
    try:
        GROUPS[name]()
    finally:
        cleanup()
    sys.stdout.write('\n'.join(OUT) + '\n')


def main(argv):
    if argv[:1] == ['--worker']:
        worker(argv[1], argv[2])
        return 0
    names = []
    for a in argv:
        names += list(GROUPS) if a == 'all' else a.split(',')
    rc = 0
    for name in names:
        outs = []
        for lib in (ORIG, PATCHED):
            p = subprocess.run([sys.executable, HERE, '--worker', lib, name],
                               stdout=subprocess.PIPE, stderr=subprocess.PIPE)
            if p.returncode != 0:
                print('[%s] worker failed for %s:\n%s' % (name, lib, p.stderr.decode()[-3000:]))
                rc = 2
            outs.append(p.stdout.decode('utf-8', 'backslashreplace').split('\n'))
        a, b = outs
        ndiff = 0
        if len(a) != len(b):
            print('[%s] DIFFERENT NUMBER OF CASES: %d vs %d' % (name, len(a), len(b)))
            ndiff += 1
        for x, y in zip(a, b):
            if x != y:
                ndiff += 1
                if ndiff <= 8:
                    print('[%s] DIFF\n  orig:    %s\n  patched: %s' % (name, x[:600], y[:600]))
        nexc = sum(1 for x in a if 'EXC' in x)
        print('[%s] cases=%d (with errors: %d) differences=%d' % (name, len(a) - 1, nexc, ndiff))
        if ndiff:
            rc = 1
    return rc


if __name__ == '__main__':
    sys.exit(main(sys.argv[1:]))
